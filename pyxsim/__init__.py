"""pyxsim — deterministic simulation with fault injection for esa-pyxel.

One seeded scheduler decides which real thread runs (baton passing), one virtual
clock backs every timer the properties depend on, and thin seams over numpy's
process-wide RNG, the wall clock and the filesystem turn them into yield points,
event logs and fault-injection sites.  See /verif/DESIGN.md.
"""

__all__ = ["sched", "seams", "probes", "world", "ref", "engine"]
