"""Calibration scenarios under the simulator (shared by C10, C11 and the calibration clauses of C04/C06/C07/C09).

Seams (all removed after each scenario):
* ``pyxel.calibration.archipelago_datatree.ThreadPoolExecutor`` -> ``sched.SimExecutor`` (island creation jobs
  become simulator threads);
* ``ArchipelagoDataTree._build`` is wrapped so that the pygmo archipelago is handed back behind a thin proxy
  whose ``wait_check()`` releases the baton while the caller blocks inside pygmo's C++ code;
* ``DaskIsland.run_evolve`` is wrapped: the pygmo island thread is *adopted* on entry (behind an arrival
  barrier of ``num_islands`` threads) and retired on exit, so it only ever runs Python with the baton.
"""

from __future__ import annotations

import contextlib
import copy
import os
import random
import traceback
from typing import Any, Optional

import numpy as np

from . import probes, ref, sched, seams, world

SIMULATED_LINE_TARGETS = (
    ("pyxel.calibration.fitting_datatree", "ModelFittingDataTree._apply_parameters"),
    ("pyxel.calibration.fitting_datatree", "ModelFittingDataTree.update_processor"),
    ("pyxel.pipelines.processor", "Processor.set"),
    ("pyxel.exposure.exposure", "run_pipeline"),
)

FITNESS = {
    "sum_of_abs_residuals": "pyxel.calibration.fitness.sum_of_abs_residuals",
    "sum_of_squared_residuals": "pyxel.calibration.fitness.sum_of_squared_residuals",
    "reduced_chi_squared": "pyxel.calibration.fitness.reduced_chi_squared",
}


# ----------------------------------------------------------------- generation
def gen_calibration(rng, tier: str, *, islands=(1, 1, 2, 3), fit_ranges: str = "equal", multi_readout_p: float = 0.3, weights_p: float = 0.3, n_targets=(1, 1, 2, 3)) -> dict:
    det = world.gen_detector(rng, types=("CCD", "CMOS"))
    det["row"], det["col"] = rng.randint(3, 5), rng.randint(3, 5)
    rows, cols = det["row"], det["col"]
    multi = rng.random() < multi_readout_p
    times = [1.0, 2.0, 3.5][: rng.randint(2, 3)] if multi else None
    result_type = rng.choice(["pixel", "signal", "image"]) if not multi else "pixel"
    # the calibrated model 'cal' writes the result bucket; a second probe adds a fixed offset
    vec_len = rng.randint(0, 3)
    cal_args: dict[str, Any] = {"tag": "cal", "level": 1.0, "write": ["pixel"] if result_type == "pixel" else (["pixel", "signal"] if result_type == "signal" else ["pixel", "image"]), "image_dtype": "uint32"}
    if vec_len:
        cal_args["vec"] = [0.0] * vec_len
    other_args = {"tag": "oth", "level": 2, "write": ["photon"]}
    pipeline = {"photon_collection": [{"name": "oth", "func": world.PROBE, "enabled": True, "arguments": other_args}], "charge_collection": [{"name": "cal", "func": world.PROBE, "enabled": True, "arguments": cal_args}]}
    # parameters: disjoint boxes per component so that a value applied to the wrong slot is out of its box
    params, truth, k = [], [], 0
    scalars = ["level"] + [a for a in ("aux", "aux2") if rng.random() < 0.4]
    for a in scalars[1:]:
        cal_args[a] = 1.0
    order = scalars + (["vec"] if vec_len else [])
    rng.shuffle(order)
    for name in order:
        log = rng.random() < 0.4
        if name != "vec":
            lo, hi = (10.0 ** k * 1.5, 10.0 ** k * 6.0)
            k += 1
            params.append({"key": f"pipeline.charge_collection.cal.arguments.{name}", "values": "_", "logarithmic": log, "boundaries": [lo, hi]})
            truth.append(round(rng.uniform(lo, hi), 3))
        else:
            shared = rng.random() < 0.4
            if shared:
                lo, hi = (10.0 ** k * 1.5, 10.0 ** k * 6.0)
                k += 1
                params.append({"key": "pipeline.charge_collection.cal.arguments.vec", "values": ["_"] * vec_len, "logarithmic": log, "boundaries": [lo, hi]})
                truth.append([round(rng.uniform(lo, hi), 3) for _ in range(vec_len)])
            else:
                bnds = []
                for _ in range(vec_len):
                    bnds.append([10.0 ** k * 1.5, 10.0 ** k * 6.0])
                    k += 1
                params.append({"key": "pipeline.charge_collection.cal.arguments.vec", "values": ["_"] * vec_len, "logarithmic": log, "boundaries": bnds})
                truth.append([round(rng.uniform(b[0], b[1]), 3) for b in bnds])
    nt = rng.choice(list(n_targets))
    inputs = None
    if nt > 1:
        inputs = [{"key": "pipeline.photon_collection.oth.arguments.level", "values": rng.sample([3, 5, 8, 13], nt)}]
        if rng.random() < 0.5:
            inputs.append({"key": "detector.characteristics.quantum_efficiency", "values": rng.sample([0.2, 0.4, 0.6, 0.9], nt)})
            cal_args["use_fields"] = True
    # fit ranges
    def sub(n):
        a = rng.randint(0, n - 2)
        b = rng.randint(a + 1, n)
        return a, b

    if fit_ranges == "full":
        rr = tr = [0, rows, 0, cols]
    else:
        y0, y1 = sub(rows)
        x0, x1 = sub(cols)
        rr = tr = [y0, y1, x0, x1]
    if multi:
        t0, t1 = sub(len(times))
        rr = tr = [t0, t1, *rr]
    weights = None
    weights_file = False
    if not multi and rng.random() < weights_p:
        if rng.random() < 0.5:
            weights = [rng.choice([0.5, 1.5, 2.0, 0.25]) for _ in range(nt)]
        else:
            weights_file = True
    fit_name = rng.choice(["sum_of_abs_residuals", "sum_of_squared_residuals", "reduced_chi_squared"])
    region = (rr[-3] - rr[-4]) * (rr[-1] - rr[-2]) * ((rr[1] - rr[0]) if multi else 1)
    if fit_name == "reduced_chi_squared" and region < vec_len + 5:
        fit_name = "sum_of_squared_residuals"
    algo_type = rng.choice(["sade", "sade", "sga", "nlopt"])
    scn = {
        "detector": det,
        "pipeline": pipeline,
        "readout": {"times": times, "start_time": 0.0, "non_destructive": False} if multi else {},
        "mode": {
            "kind": "calibration",
            "result_type": result_type,
            "parameters": params,
            "truth": truth,
            "result_input_arguments": inputs,
            "n_targets": nt,
            "result_fit_range": rr,
            "target_fit_range": tr,
            "weights": weights,
            "weights_file": weights_file,
            "fitness": fit_name,
            "fitness_arguments": {"free_parameters": len(scalars) + vec_len} if fit_name == "reduced_chi_squared" else None,
            "algorithm": {"type": algo_type, "generations": rng.randint(1, 2), "population_size": rng.choice([7, 8]) if algo_type == "sade" else rng.choice([6, 8])}
            if algo_type != "nlopt"
            else {"type": "nlopt", "generations": 1, "population_size": rng.choice([4, 6]), "nlopt_solver": rng.choice(["neldermead", "sbplx", "cobyla"]), "maxeval": rng.randint(4, 9), "replacement": rng.choice(["best", "worst", "random"]), "nlopt_selection": rng.choice(["best", "worst", "random"])},
            "num_islands": rng.choice(list(islands)),
            "num_evolutions": rng.randint(1, 3),
            "num_best_decisions": rng.choice([None, 0, 2, 3]),
            "topology": "unconnected",
            "pygmo_seed": rng.randrange(1, 100000),
            "pipeline_seed": None,
            "target_pad": rng.choice([0, 0, 1]),  # target files larger than the detector
            "target_dtype": rng.choice([None, None, "int64", "int32"]),
        },
        "sched": {"policy": rng.choice(["fifo", "lifo", "random", "preempt", "pct"]), "workers": rng.choice([1, 2, 3, 4, 8, 16]), "preempt_p": rng.choice([0.05, 0.2]), "pct_d": rng.randint(1, 3), "sim_seed": rng.randrange(2**31)},
    }
    return scn


# ------------------------------------------------------------------ reference
def flat_bounds(params: list[dict]) -> list[tuple[float, float, bool, str, int]]:
    """Per decision component: (low, high, logarithmic, key, index within parameter)."""
    out = []
    for p in params:
        n = 1 if p["values"] == "_" else len(p["values"])
        b = np.array(p["boundaries"], dtype=float)
        for i in range(n):
            lo, hi = (b[0], b[1]) if b.ndim == 1 else (b[i, 0], b[i, 1])
            out.append((float(lo), float(hi), bool(p.get("logarithmic")), p["key"], i))
    return out


def decision_to_parameters(params: list[dict], x) -> list[float]:
    fb = flat_bounds(params)
    return [float(10.0 ** v) if fb[i][2] else float(v) for i, v in enumerate(x)]


def parameters_to_overrides(params: list[dict], values: list[float]) -> dict:
    out, a = {}, 0
    for p in params:
        if p["values"] == "_":
            out[p["key"]] = values[a]
            a += 1
        else:
            n = len(p["values"])
            out[p["key"]] = list(values[a : a + n])
            a += n
    return out


def truth_flat(scn: dict) -> list[float]:
    out = []
    for t in scn["mode"]["truth"]:
        out.extend(t if isinstance(t, list) else [t])
    return [float(v) for v in out]


def scn_for_target(scn: dict, i: int) -> dict:
    """Scenario of the i-th target/input pair as a plain exposure description."""
    s = copy.deepcopy(scn)
    for ia in scn["mode"].get("result_input_arguments") or []:
        key, val = ia["key"], ia["values"][i]
        if key.startswith("detector."):
            s["detector"]["qe"] = val
        else:
            _, g, name, _, arg = key.split(".")
            for m in s["pipeline"][g]:
                if m["name"] == name:
                    m["arguments"][arg] = val
    s["readout"] = {"times": (scn["readout"].get("times") or [1.0]), "start_time": scn["readout"].get("start_time", 0.0), "non_destructive": scn["readout"].get("non_destructive", False)}
    return s


def simulated(scn: dict, i: int, values: list[float]) -> np.ndarray:
    """Reference-model result bucket (time, y, x) of pair i for calibrated parameter values."""
    s = scn_for_target(scn, i)
    r = ref.simulate(s, overrides=parameters_to_overrides(scn["mode"]["parameters"], values), seed=scn["mode"].get("pipeline_seed"))
    b = scn["mode"]["result_type"]
    return np.stack([np.asarray(st[b], dtype=float) for st in r["steps"]])


def slices(rng6_or_4, ndim3: bool):
    r = list(rng6_or_4)
    if len(r) == 4:
        r = [None, None, *r]
    return slice(r[0], r[1]), slice(r[2], r[3]), slice(r[4], r[5])


def fom(name: str, sim: np.ndarray, tgt: np.ndarray, w: np.ndarray, args: Optional[dict]) -> float:
    if name == "sum_of_abs_residuals":
        return float(np.nansum(np.abs((tgt - sim) * w)))
    if name == "sum_of_squared_residuals":
        return float(np.nansum((tgt - sim) ** 2 * w))
    d = tgt - sim
    dof = np.isfinite(d).sum() - args["free_parameters"]
    return float(np.nansum(np.square(d / w))) / dof


def expected_fitness(scn: dict, values: list[float], targets: list[np.ndarray], weight_arrays: Optional[list[np.ndarray]]) -> float:
    m = scn["mode"]
    multi = bool(scn["readout"].get("times"))
    tot = 0.0
    for i in range(m["n_targets"]):
        sim = simulated(scn, i, values)
        st, sy, sx = slices(m["result_fit_range"], multi)
        tt, ty, tx = slices(m["target_fit_range"], multi)
        if multi:
            s_sel = sim[st, sy, sx]
            t_sel = targets[i][tt, ty, tx]
        else:
            s_sel = sim[0][sy, sx]
            t_sel = targets[i][ty, tx]
        if m.get("weights"):
            w = np.full(t_sel.shape, float(m["weights"][i]))
        elif weight_arrays is not None:
            w = weight_arrays[i][ty, tx]
        else:
            w = np.ones(t_sel.shape)
        tot += fom(m["fitness"], s_sel, t_sel.astype(float), w, m.get("fitness_arguments"))
    return tot


# -------------------------------------------------------------------- builders
def write_inputs(scn: dict, scratch: str) -> dict:
    """Target (and weight) files through the real filesystem; returns paths and the arrays written."""
    m = scn["mode"]
    rows, cols = scn["detector"]["row"], scn["detector"]["col"]
    pad = m.get("target_pad", 0)
    multi = bool(scn["readout"].get("times"))
    truth = truth_flat(scn)
    paths, arrays, wpaths, warrays = [], [], [], []
    for i in range(m["n_targets"]):
        sim = simulated(scn, i, truth)  # (time, y, x)
        full = np.zeros((sim.shape[0], rows + pad, cols + pad))
        full[:, :rows, :cols] = sim
        full[:, rows:, :] = 7.0
        full[:, :, cols:] = 7.0
        arr = full if multi else full[0]
        if m.get("target_dtype"):
            arr = np.round(arr).astype(m["target_dtype"])  # integer-typed target files (as measured frames usually are)
        p = os.path.join(scratch, f"target_{i}.npy")
        np.save(p, arr)
        paths.append(p)
        arrays.append(arr)
        if m.get("weights_file"):
            w = 0.5 + (np.arange((rows + pad) * (cols + pad)).reshape(rows + pad, cols + pad) % 4) * 0.5
            wp = os.path.join(scratch, f"weights_{i}.npy")
            np.save(wp, w)
            wpaths.append(wp)
            warrays.append(w)
    return {"targets": paths, "target_arrays": arrays, "weights": wpaths or None, "weight_arrays": warrays or None}


def build_calibration(scn: dict, files: dict):
    from pyxel.calibration import Algorithm, Calibration
    from pyxel.observation import ParameterValues
    from pyxel.pipelines import FitnessFunction

    m = scn["mode"]
    readout = world.build_readout({k: v for k, v in scn["readout"].items() if v is not None}) if scn["readout"].get("times") else None
    params = [ParameterValues(key=p["key"], values=copy.deepcopy(p["values"]), logarithmic=p.get("logarithmic", False), boundaries=copy.deepcopy(p["boundaries"])) for p in m["parameters"]]
    ria = [ParameterValues(key=p["key"], values=list(p["values"])) for p in (m.get("result_input_arguments") or [])] or None
    cal = Calibration(
        target_data_path=files["targets"],
        fitness_function=FitnessFunction(func=FITNESS[m["fitness"]], arguments=m.get("fitness_arguments")),
        algorithm=Algorithm(**m["algorithm"]),
        parameters=params,
        readout=readout,
        result_type=m["result_type"],
        result_fit_range=tuple(m["result_fit_range"]) if m.get("result_fit_range") else None,
        target_fit_range=tuple(m["target_fit_range"]) if m.get("target_fit_range") else None,
        result_input_arguments=ria,
        pygmo_seed=m.get("pygmo_seed"),
        pipeline_seed=m.get("pipeline_seed"),
        num_islands=m["num_islands"],
        num_evolutions=m["num_evolutions"],
        num_best_decisions=m.get("num_best_decisions"),
        topology=m.get("topology", "unconnected"),
        weights=m.get("weights"),
        weights_from_file=files.get("weights"),
    )
    return cal, world.build_detector(scn["detector"]), world.build_pipeline(scn["pipeline"])


# ----------------------------------------------------------------------- seams
FITLOG: list[dict] = []  # one entry per ModelFittingDataTree.fitness call made under calibration_seams


def fitness_calls(hist: list[dict], log: list[dict]) -> list[dict]:
    """FITLOG entries with the probe events of their own thread between entry and exit."""
    out = []
    for e in log:
        if e["end"] is None:
            continue
        out.append(dict(e, events=[ev for ev in hist[e["start"] : e["end"]] if ev["thread"] == e["thread"]]))
    return out


class ArchiProxy:
    def __init__(self, real, sim: sched.Sim, n: int):
        object.__setattr__(self, "_real", real)
        object.__setattr__(self, "_sim", sim)
        object.__setattr__(self, "_n", n)

    def evolve(self, *a, **k):
        self._sim.expected_foreign = self._n
        self._sim._arrivals = []
        self._sim.count("archi_evolve")
        return self._real.evolve(*a, **k)

    def wait_check(self):
        return self._sim.external_call(self._real.wait_check)

    def wait(self):
        return self._sim.external_call(self._real.wait)

    def __getattr__(self, name):
        return getattr(self._real, name)

    def __iter__(self):
        return iter(self._real)

    def __len__(self):
        return len(self._real)

    def __getitem__(self, i):
        return self._real[i]


@contextlib.contextmanager
def calibration_seams(sim: sched.Sim):
    import pyxel.calibration.archipelago_datatree as ad
    import pyxel.calibration.user_defined as ud

    saved_exec = ad.ThreadPoolExecutor
    saved_build = ad.ArchipelagoDataTree._build
    saved_evolve = ud.DaskIsland.run_evolve

    def build(self):
        saved_build(self)
        self._pygmo_archi = ArchiProxy(self._pygmo_archi, sim, self.num_islands)

    def run_evolve(self, algo, pop):
        label = f"island[{pop.get_seed()}]"
        th = sim.adopt(label)
        try:
            return saved_evolve(self, algo, pop)
        finally:
            sim.retire(th)

    import pyxel.calibration.fitting_datatree as fd

    saved_fitness = fd.ModelFittingDataTree.fitness

    def fitness(self, decision_vector_1d):
        # pure recording (no yield point, no draw): which decision vector each evaluation was asked to score, and which slice
        # of the probe history belongs to it (same simulated thread, between entry and exit)
        me = sim.me()
        entry = {"thread": me.key if me is not None else "-", "x": [float(v) for v in np.asarray(decision_vector_1d, dtype=float).ravel()], "start": len(probes.HIST), "end": None, "f": None, "exc": None}
        FITLOG.append(entry)
        try:
            out = saved_fitness(self, decision_vector_1d)
            entry["f"] = [float(v) for v in np.asarray(out, dtype=float).ravel()]
            return out
        except BaseException as exc:
            entry["exc"] = type(exc).__name__
            raise
        finally:
            entry["end"] = len(probes.HIST)

    fd.ModelFittingDataTree.fitness = fitness
    ad.ThreadPoolExecutor = sched.SimExecutor
    ad.ArchipelagoDataTree._build = build
    ud.DaskIsland.run_evolve = run_evolve
    # any other waiting primitive of concurrent.futures the module may have bound by name
    extra = {}
    for name, repl in (("as_completed", sched.sim_as_completed), ("wait", sched.sim_wait)):
        if hasattr(ad, name):
            extra[name] = getattr(ad, name)
            setattr(ad, name, repl)
    try:
        yield
    finally:
        fd.ModelFittingDataTree.fitness = saved_fitness
        ad.ThreadPoolExecutor = saved_exec
        ad.ArchipelagoDataTree._build = saved_build
        ud.DaskIsland.run_evolve = saved_evolve
        for name, orig in extra.items():
            setattr(ad, name, orig)


def run_calibration(scn: dict, *, simulate: bool = True, forced=None, compute_simulated: bool = False, reset: bool = True, pre_run=None, rerun: bool = False) -> dict:
    import pyxel

    if reset:
        world.reset_process_state()
    else:
        probes.reset()
    rec: dict[str, Any] = {"exc": None, "tree": None, "sim": None}
    del FITLOG[:]
    with world.Scratch() as scratch:
        files = write_inputs(scn, scratch)
        rec["files"] = {k: v for k, v in files.items() if k.endswith("arrays")}
        try:
            cal, det, pipe = build_calibration(scn, files)
        except Exception as exc:  # noqa: BLE001
            rec.update({"exc": exc, "tb": traceback.format_exc(limit=5), "phase": "build", "hist": []})
            return rec
        rec["objects"] = (cal, det, pipe)
        if pre_run is not None:
            pre_run(cal, det, pipe)
        sc = scn.get("sched") or {}
        sim = None
        rs = seams.RngSeam()
        state0 = np.random.get_state()
        try:
            if simulate:
                sim = sched.Sim(random.Random(sc.get("sim_seed", 0)), policy=sc.get("policy", "random"), workers=sc.get("workers", 4), preempt_p=sc.get("preempt_p", 0.0), pct_d=sc.get("pct_d", 0), forced=forced, expected_foreign=scn["mode"]["num_islands"])
                with rs.active(), calibration_seams(sim), sim.running():
                    tree = pyxel.run_mode(mode=cal, detector=det, pipeline=pipe, with_inherited_coords=True)
                    if compute_simulated:
                        # the champions' re-simulation tasks of all islands run concurrently under the scheduler,
                        # with line-level pre-emption inside the functions that prepare and run each re-simulation
                        rt = scn["mode"]["result_type"]
                        ls = seams.LineSeam(targets=SIMULATED_LINE_TARGETS)
                        sim.policy, sim.preempt_p = "preempt", 0.25  # this phase is always explored pre-emptively
                        with ls.active():
                            rec["simulated"] = {rt: np.asarray(tree[f"/simulated/{rt}"].compute().values)}
                            rec["full_size"] = {rt: np.asarray(tree[f"/full_size/simulated_{rt}"].compute().values)}
                        rec["simulated"]["target"] = np.asarray(tree["/simulated/target"].values)
                        rec["line_hits"] = ls.hits
            else:
                tree = pyxel.run_mode(mode=cal, detector=det, pipeline=pipe, with_inherited_coords=True)
                if compute_simulated:
                    rec["simulated"] = {k: np.asarray(tree[f"/simulated/{k}"].compute().values) for k in ("pixel", "signal", "image", "target")}
                    rec["full_size"] = {k: np.asarray(tree[f"/full_size/simulated_{k}"].compute().values) for k in ("pixel", "signal", "image")}
            rec["tree"] = tree
        except sched.HarnessError:
            raise
        except BaseException as exc:  # noqa: BLE001
            rec["exc"] = exc
            rec["tb"] = traceback.format_exc(limit=8)
        rec["rng_restored"] = _state_eq(state0, np.random.get_state())
        rec["hist"] = list(probes.HIST)
        rec["fitlog"] = fitness_calls(rec["hist"], FITLOG)
        if sim is not None:
            rec["rng"] = {"overlap": rs.overlap}
            rec["sim"] = {"digest": sim.digest(), "decisions": list(sim.decisions), "contested": sim.contested, "preemptions": sim.preemptions, "now": sim.now, "stats": dict(sim.stats), "broken": sim.broken}
        if rerun and simulate and rec["exc"] is None:
            # history: the same Calibration / detector / pipeline objects are run a second time (under another schedule)
            probes.reset()
            del FITLOG[:]
            r2: dict[str, Any] = {"exc": None, "tree": None}
            sim2 = sched.Sim(random.Random(sc.get("sim_seed", 0) + 1), policy=sc.get("policy", "random"), workers=sc.get("workers", 4), preempt_p=sc.get("preempt_p", 0.0), pct_d=sc.get("pct_d", 0), expected_foreign=scn["mode"]["num_islands"])
            try:
                with calibration_seams(sim2), sim2.running():
                    r2["tree"] = pyxel.run_mode(mode=cal, detector=det, pipeline=pipe, with_inherited_coords=True)
            except sched.HarnessError:
                raise
            except BaseException as exc:  # noqa: BLE001
                r2["exc"] = exc
                r2["tb"] = traceback.format_exc(limit=8)
            r2["hist"] = list(probes.HIST)
            r2["fitlog"] = fitness_calls(r2["hist"], FITLOG)
            r2["sim"] = {"digest": sim2.digest(), "contested": sim2.contested}
            rec["rerun"] = r2
    return rec


def _state_eq(a, b) -> bool:
    return a[0] == b[0] and bool(np.array_equal(a[1], b[1])) and a[2:] == b[2:]


def evaluations(scn: dict, hist: list[dict]) -> list[dict]:
    """One entry per pipeline evaluation (run id): applied values of the calibrated arguments, input pair values."""
    runs: dict[int, dict] = {}
    for ev in hist:
        r = runs.setdefault(ev["run"], {"run": ev["run"], "thread": ev["thread"]})
        if ev["name"] == "cal":
            r["level"] = ev["kwargs"].get("level")
            r["aux"] = ev["kwargs"].get("aux")
            r["aux2"] = ev["kwargs"].get("aux2")
            r["vec"] = ev["kwargs"].get("vec")
            r["qe"] = ev["fields"].get("qe")
        elif ev["name"] == "oth":
            r["oth_level"] = ev["kwargs"].get("level")
    return list(runs.values())


def applied_vector(scn: dict, ev: dict) -> list[float]:
    out = []
    for p in scn["mode"]["parameters"]:
        name = p["key"].split(".")[-1]
        if name == "vec":
            out.extend(float(v) for v in np.asarray(ev["vec"], dtype=float).ravel())
        else:
            out.append(float(ev[name]))
    return out


def result_digest(tree) -> str:
    """Digest of the eager part of a calibration result (champions / best individuals)."""
    import hashlib

    h = hashlib.sha256()
    if tree is None:
        return "none"
    for grp in ("champion", "best"):
        if grp in tree.children:
            for name in ("fitness", "decision", "parameters"):
                if name in tree[grp].data_vars:
                    h.update(np.ascontiguousarray(tree[f"/{grp}/{name}"].values).tobytes())
    return h.hexdigest()[:16]
