"""./check <ID> [--tier quick|thorough] [--seed N] [--replay FILE] [--digests i,j,...]"""

from __future__ import annotations

import argparse
import json
import os
import random
import sys
import warnings


def main(argv=None) -> int:
    warnings.filterwarnings("ignore")
    os.environ.setdefault("TQDM_DISABLE", "1")
    ap = argparse.ArgumentParser()
    ap.add_argument("pid")
    ap.add_argument("--tier", default=os.environ.get("VERIF_TIER", "quick"), choices=["quick", "thorough"])
    ap.add_argument("--seed", type=int, default=int(os.environ.get("VERIF_SEED", "0")))
    ap.add_argument("--replay")
    ap.add_argument("--digests")
    ap.add_argument("--jobs", type=int, default=16)
    ap.add_argument("--one", type=int, help="run a single scenario index verbosely")
    a = ap.parse_args(argv)
    pid = a.pid.upper()
    if pid == "C14":
        # must be set before numba is imported: an out-of-bounds write then raises instead of corrupting memory
        os.environ.setdefault("NUMBA_BOUNDSCHECK", "1")
    from . import engine

    if a.replay:
        return engine.replay(pid, a.replay)
    if a.digests is not None:
        mod = engine.load_prop(pid)
        out = {}
        for i in [int(x) for x in a.digests.split(",") if x != ""]:
            scn = engine.gen_scenario(mod, pid, a.seed, i, a.tier)
            o = engine.run_one(mod, scn)
            out[i] = o.get("digest") if not o.get("harness_error") else "harness:" + str(o.get("harness_error"))[:200]
        print("DIGESTS " + json.dumps(out))
        return 0
    if a.one is not None:
        mod = engine.load_prop(pid)
        scn = engine.gen_scenario(mod, pid, a.seed, a.one, a.tier)
        print(json.dumps(scn, indent=1, default=engine._default))
        o = engine.run_one(mod, scn)
        print(json.dumps({k: v for k, v in o.items() if k != "sample"}, indent=1, default=engine._default)[:6000])
        return 0
    print(f"VERIF_SEED={a.seed} property={pid} tier={a.tier}")
    return engine.run_check(pid, a.tier, a.seed, jobs=a.jobs)


if __name__ == "__main__":
    sys.exit(main())
