"""Driver shared by every property check: seeded batches on up to 16 processes,
determinism self-test in fresh interpreters, minimisation, replay files, known
findings, evidence.

A property module provides
    ID, LEVEL, RULE, ASSUMPTIONS, COMPONENTS, BUDGET
    generate(rng, tier) -> scenario (JSON-serialisable dict)
    execute(scenario, forced=None) -> dict(
        violations=[{"clause","signature","detail"}], stats={counter: n},
        nontrivial=bool, key=str (distinctness key), digest=str, sim_time=float,
        decisions=[...], sample=<small json>)
    shrink(scenario) -> iterable of smaller scenarios        (optional)
    REQUIRED_REACH = [counter, ...]                           (optional)
"""

from __future__ import annotations

import faulthandler
import hashlib
import importlib
import json
import os
import signal
import subprocess
import sys
import time
import traceback
from concurrent.futures import ProcessPoolExecutor, as_completed
from multiprocessing import get_context
from typing import Any, Optional

VERIF = os.path.dirname(os.path.dirname(os.path.abspath(__file__)))
PY = "/venv/bin/python"
KNOWN = os.path.join(VERIF, "known_findings.json")
SCEN_TIMEOUT = 180


def splitmix(*parts) -> int:
    h = hashlib.sha256(("|".join(str(p) for p in parts)).encode()).digest()
    return int.from_bytes(h[:8], "big")


def jdump(obj) -> str:
    return json.dumps(obj, sort_keys=True, default=_default)


def _default(o):
    import numpy as np

    if isinstance(o, np.ndarray):
        return o.tolist()
    if isinstance(o, (np.integer,)):
        return int(o)
    if isinstance(o, (np.floating,)):
        return float(o)
    if isinstance(o, (np.bool_,)):
        return bool(o)
    if isinstance(o, (set, tuple)):
        return list(o)
    return repr(o)


def gen_scenario(mod, pid: str, seed: int, i: int, tier: str) -> dict:
    """Scenario number i of a batch: a pure function of (VERIF_SEED, property, i)."""
    import random

    if hasattr(mod, "generate_indexed"):
        return mod.generate_indexed(seed, i, tier)
    return mod.generate(random.Random(splitmix(seed, pid, i)), tier)


def load_prop(pid: str):
    return importlib.import_module(f"pyxsim.props.{pid.lower()}")


def _alarm(_sig, _frm):
    from . import sched

    raise sched.ScenarioTimeout("scenario wall timeout")


def run_one(mod, scn: dict, forced=None) -> dict:
    """Execute one scenario with a watchdog; harness failures are reported as such."""
    from . import sched

    old = signal.signal(signal.SIGALRM, _alarm)
    signal.alarm(SCEN_TIMEOUT)
    try:
        out = mod.execute(scn, forced=forced) if forced is not None else mod.execute(scn)
        out.setdefault("harness_error", None)
    except sched.ScenarioTimeout:
        out = {"violations": [], "stats": {}, "harness_error": "scenario wall timeout", "digest": "timeout"}
    except sched.HarnessError as exc:
        out = {"violations": [], "stats": {}, "harness_error": f"HarnessError: {exc}", "digest": "harness"}
    except Exception:
        out = {"violations": [], "stats": {}, "harness_error": traceback.format_exc(limit=12), "digest": "exc"}
    finally:
        signal.alarm(0)
        signal.signal(signal.SIGALRM, old)
        if sched._ACTIVE is not None:  # never leak a simulator into the next scenario
            try:
                sched._ACTIVE.uninstall()
            except Exception:
                sched._ACTIVE = None
    return out


def _worker(pid: str, tier: str, seed: int, indices: list[int], deadline: float) -> dict:
    sys.setrecursionlimit(10000)
    faulthandler.enable()
    mod = load_prop(pid)
    agg: dict[str, Any] = {
        "n": 0,
        "stats": {},
        "keys": set(),
        "viol": [],
        "harness": [],
        "samples": [],
        "sim_time": 0.0,
        "digests": {},
        "skipped": 0,
    }
    import random

    for i in indices:
        if time.time() > deadline:
            agg["skipped"] += 1
            continue
        scn = gen_scenario(mod, pid, seed, i, tier)
        out = run_one(mod, scn)
        agg["n"] += 1
        for k, v in (out.get("stats") or {}).items():
            agg["stats"][k] = agg["stats"].get(k, 0) + v
        if out.get("harness_error"):
            agg["harness"].append({"index": i, "error": out["harness_error"], "scenario": scn})
            continue
        if out.get("nontrivial") and out.get("key"):
            agg["keys"].add(out["key"])
        agg["sim_time"] += float(out.get("sim_time") or 0.0)
        agg["digests"][i] = out.get("digest")
        if len(agg["samples"]) < 2 and out.get("sample") is not None:
            agg["samples"].append(out["sample"])
        for v in out.get("violations") or []:
            if len(agg["viol"]) < 40:
                agg["viol"].append({"index": i, "scenario": scn, "violation": v, "decisions": out.get("decisions"), "digest": out.get("digest")})
            agg["stats"]["violations_raw"] = agg["stats"].get("violations_raw", 0) + 1
    agg["keys"] = list(agg["keys"])
    return agg


def fresh_digests(pid: str, tier: str, seed: int, indices: list[int], hashseed: str) -> dict:
    env = dict(os.environ)
    env["PYTHONHASHSEED"] = hashseed
    env["PYTHONPATH"] = VERIF + os.pathsep + env.get("PYTHONPATH", "")
    cmd = [PY, "-W", "ignore", "-m", "pyxsim.cli", pid, "--digests", ",".join(map(str, indices)), "--tier", tier, "--seed", str(seed)]
    r = subprocess.run(cmd, env=env, cwd=VERIF, stdout=subprocess.PIPE, stderr=subprocess.PIPE, text=True, timeout=900)
    for line in r.stdout.splitlines():
        if line.startswith("DIGESTS "):
            return {int(k): v for k, v in json.loads(line[8:]).items()}
    raise RuntimeError(f"fresh interpreter produced no digests: rc={r.returncode}\n{r.stdout[-2000:]}\n{r.stderr[-3000:]}")


def load_known() -> list[dict]:
    if not os.path.exists(KNOWN):
        return []
    return json.load(open(KNOWN))["findings"]


def match_known(pid: str, signature: str) -> Optional[dict]:
    for f in load_known():
        if f.get("status") == "known" and f["property"] == pid and f["signature"] == signature:
            return f
    return None


def minimise(mod, scn: dict, viol: dict, budget_s: float = 60.0) -> tuple[dict, dict, dict]:
    """Greedy shrink while the same signature persists. Returns (scenario, violation, outcome)."""
    t0 = time.time()
    best = scn
    best_out = run_one(mod, best)
    same = [v for v in best_out.get("violations") or [] if v["signature"] == viol["signature"]]
    if not same:
        return scn, viol, best_out
    best_v = same[0]
    shrink = getattr(mod, "shrink", None)
    if shrink is None:
        return best, best_v, best_out
    improved = True
    def candidates(scenario):
        # a shrinker that trips over an unusual scenario must not cost the report: stop shrinking, keep what we have
        try:
            yield from shrink(scenario)
        except Exception:  # noqa: BLE001
            return

    while improved and time.time() - t0 < budget_s:
        improved = False
        for cand in candidates(best):
            if time.time() - t0 > budget_s:
                break
            out = run_one(mod, cand)
            if out.get("harness_error"):
                continue
            hit = [v for v in out.get("violations") or [] if v["signature"] == viol["signature"]]
            if hit:
                best, best_v, best_out = cand, hit[0], out
                improved = True
                break
    # schedule minimisation: shortest forced prefix that still fails (default continuation afterwards)
    dec = best_out.get("decisions") or []
    if dec and hasattr(mod, "execute") and getattr(mod, "FORCED_OK", False):
        lo, hi = 0, len(dec)
        while lo < hi and time.time() - t0 < budget_s * 1.5:
            mid = (lo + hi) // 2
            out = run_one(mod, best, forced=dec[:mid])
            hit = [v for v in out.get("violations") or [] if v["signature"] == viol["signature"]]
            if hit and not out.get("harness_error"):
                hi = mid
                best_v, best_out = hit[0], out
                best_out["decisions"] = dec[:mid]
            else:
                lo = mid + 1
    return best, best_v, best_out


def write_replay(pid: str, seed: int, index: int, scn: dict, viol: dict, out: dict, sizes: dict) -> str:
    d = os.path.join(VERIF, "replays", pid)
    os.makedirs(d, exist_ok=True)
    body = {
        "property": pid,
        "clause": viol["clause"],
        "signature": viol["signature"],
        "detail": viol.get("detail"),
        "verif_seed": seed,
        "scenario_index": index,
        "scenario": scn,
        "decisions": out.get("decisions") or [],
        "forced": bool(out.get("decisions")) and bool(getattr(load_prop(pid), "FORCED_OK", False)),
        "history_digest": out.get("digest"),
        "minimised_from": sizes,
    }
    name = hashlib.sha256(jdump(body).encode()).hexdigest()[:12]
    path = os.path.join(d, f"{seed}-{name}.json")
    with open(path, "w") as fh:
        fh.write(json.dumps(body, indent=1, sort_keys=True, default=_default))
    return path


def replay(pid: str, path: str) -> int:
    mod = load_prop(pid)
    body = json.load(open(path))
    forced = body["decisions"] if body.get("forced") else None
    out = run_one(mod, body["scenario"], forced=forced)
    if out.get("harness_error"):
        print(f"HARNESS-ERROR property={pid} {out['harness_error']}")
        return 2
    hit = [v for v in out.get("violations") or [] if v["signature"] == body["signature"]]
    if hit:
        same = out.get("digest") == body.get("history_digest")
        print(f"REPLAY property={pid} signature={body['signature']} digest_match={same} detail={jdump(hit[0].get('detail'))[:600]}")
        print(f"VIOLATION property={pid} replay={path}")
        return 1
    if out.get("violations"):
        print(f"REPLAY property={pid}: different violation(s) {[v['signature'] for v in out['violations']]}")
        print(f"VIOLATION property={pid} replay={path}")
        return 1
    print(f"REPLAY property={pid}: no violation (the recorded failure does not reproduce on this tree)")
    return 0


def run_check(pid: str, tier: str, seed: int, jobs: int = 16) -> int:
    t0 = time.time()
    mod = load_prop(pid)
    budget = mod.BUDGET[tier]
    n, wall = budget["n"], budget["wall"]
    jobs = max(1, min(jobs, int(os.environ.get("VERIF_JOBS", jobs)), n))
    deadline = t0 + wall
    chunks = [list(range(w, n, jobs)) for w in range(jobs)]
    aggs = []
    harness_msgs: list[str] = []
    ctx = get_context("fork")
    # determinism sample, in fresh interpreters, concurrently with the batch
    k = min(n, budget.get("determinism", 6))
    det_idx = list(range(k))
    with ProcessPoolExecutor(max_workers=jobs, mp_context=ctx) as ex:
        futs = [ex.submit(_worker, pid, tier, seed, ch, deadline) for ch in chunks if ch]
        det_futs = {}
        if k:
            from concurrent.futures import ThreadPoolExecutor

            tex = ThreadPoolExecutor(max_workers=2)
            det_futs = {hs: tex.submit(fresh_digests, pid, tier, seed, det_idx, hs) for hs in ("0", "random")}
        for f in as_completed(futs, timeout=wall + SCEN_TIMEOUT + 120):
            try:
                aggs.append(f.result())
            except Exception as exc:  # worker died
                harness_msgs.append(f"worker failed: {exc!r}")
        det_results = {}
        for hs, f in det_futs.items():
            try:
                det_results[hs] = f.result(timeout=900)
            except Exception as exc:
                harness_msgs.append(f"determinism self-test ({hs}) failed to run: {exc!r}"[:3000])

    evaluations = sum(a["n"] for a in aggs)
    stats: dict[str, int] = {}
    keys: set[str] = set()
    digests: dict[int, str] = {}
    samples: list = []
    sim_time = 0.0
    viols: list[dict] = []
    for a in aggs:
        for kk, v in a["stats"].items():
            stats[kk] = stats.get(kk, 0) + v
        keys.update(a["keys"])
        digests.update(a["digests"])
        samples.extend(a["samples"])
        sim_time += a["sim_time"]
        viols.extend(a["viol"])
        for h in a["harness"]:
            harness_msgs.append(f"scenario {h['index']}: " + " | ".join(str(h["error"]).strip().splitlines()[-6:])[:700])
    skipped = sum(a["skipped"] for a in aggs)

    # determinism verdict
    det_checked = 0
    for hs, dd in det_results.items():
        for i, dg in dd.items():
            if i in digests:
                det_checked += 1
                if digests[i] != dg:
                    harness_msgs.append(f"NONDETERMINISM scenario {i}: batch digest {digests[i]} != fresh({hs}) {dg}")

    # reach
    if tier == "thorough" or budget.get("enforce_reach"):
        for c in getattr(mod, "REQUIRED_REACH", []):
            if stats.get(c, 0) == 0:
                harness_msgs.append(f"reach probe '{c}' stayed at zero")

    # violations -> known / new
    rc = 0
    printed_known: set[str] = set()
    new_by_sig: dict[str, dict] = {}
    for v in sorted(viols, key=lambda x: x["index"]):
        sig = v["violation"]["signature"]
        kf = match_known(pid, sig)
        if kf is not None:
            if sig not in printed_known:
                printed_known.add(sig)
                print(f"KNOWN-FINDING: property={pid} {sig} — {kf['what']}")
            continue
        new_by_sig.setdefault(sig, v)
    reported = 0
    for sig, v in list(new_by_sig.items())[: int(getattr(mod, 'MAX_REPORTS', 3))]:
        scn0 = v["scenario"]
        small, sv, sout = minimise(mod, scn0, v["violation"], budget_s=90.0 if tier == "quick" else 240.0)
        if sout.get("harness_error"):
            harness_msgs.append(f"minimisation of {sig} hit harness error: {sout['harness_error']}"[:2000])
            small, sv, sout = scn0, v["violation"], {"decisions": v.get("decisions"), "digest": v.get("digest")}
        kf = match_known(pid, sv["signature"])
        if kf is not None:
            if sv["signature"] not in printed_known:
                printed_known.add(sv["signature"])
                print(f"KNOWN-FINDING: property={pid} {sv['signature']} — {kf['what']}")
            continue
        path = write_replay(pid, seed, v["index"], small, sv, sout, {"before": len(jdump(scn0)), "after": len(jdump(small))})
        # fresh-interpreter confirmation
        env = dict(os.environ)
        env["PYTHONPATH"] = VERIF + os.pathsep + env.get("PYTHONPATH", "")
        r = subprocess.run([PY, "-W", "ignore", "-m", "pyxsim.cli", pid, "--replay", path], env=env, cwd=VERIF, stdout=subprocess.PIPE, stderr=subprocess.PIPE, text=True, timeout=600)
        if r.returncode != 1 and small is not scn0:
            # the minimised case does not fail on its own (process-wide state from earlier scenarios may have
            # kept it failing inside the worker): fall back to the scenario as generated
            sv, sout = v["violation"], {"decisions": v.get("decisions"), "digest": v.get("digest")}
            path = write_replay(pid, seed, v["index"], scn0, sv, sout, {"before": len(jdump(scn0)), "after": len(jdump(scn0)), "note": "minimised case did not reproduce in a fresh interpreter"})
            r = subprocess.run([PY, "-W", "ignore", "-m", "pyxsim.cli", pid, "--replay", path], env=env, cwd=VERIF, stdout=subprocess.PIPE, stderr=subprocess.PIPE, text=True, timeout=600)
        if r.returncode == 1:
            print(f"violation clause={sv['clause']} signature={sv['signature']} detail={jdump(sv.get('detail'))[:800]}")
            print(f"VIOLATION property={pid} replay={path}")
            reported += 1
            rc = 1
        else:
            harness_msgs.append(f"violation {sig} did not replay in a fresh interpreter (rc={r.returncode}): {r.stdout[-500:]} {r.stderr[-500:]}")
    wall_s = time.time() - t0
    runs_per_hour = evaluations / wall_s * 3600 if wall_s > 0 else 0
    ev = {
        "property_id": pid,
        "tier": tier,
        "seed": seed,
        "level": mod.LEVEL,
        "coverage": {
            "evaluations": evaluations,
            "distinct_nontrivial": len(keys),
            "rule": mod.RULE,
            "samples": samples[:3] or [{"note": "no sample produced"}],
            "runs_per_hour": round(runs_per_hour),
            "simulated_time_covered_s": round(sim_time, 3),
            "fault_and_reach_counters": dict(sorted(stats.items())),
            "determinism_selftest": {"scenarios_rechecked_in_fresh_interpreters": det_checked, "hashseeds": list(det_results)},
            "scenarios_not_run_within_wall_budget": skipped,
            "components": getattr(mod, "COMPONENTS", {}),
            "known_findings_seen": sorted(printed_known),
            "jobs": jobs,
            **(mod.coverage_extra() if hasattr(mod, "coverage_extra") else {}),
        },
        "assumptions": list(mod.ASSUMPTIONS),
        "wall_s": round(wall_s, 2),
        "violations": reported,
    }
    evdir = os.environ.get("PYXSIM_EVIDENCE_DIR") or os.path.join(VERIF, "evidence")  # override: triage runs of seeded changes
    os.makedirs(evdir, exist_ok=True)
    with open(os.path.join(evdir, f"{pid}.json"), "w") as fh:
        json.dump(ev, fh, indent=1, sort_keys=True, default=_default)
    print(
        f"{pid} tier={tier} seed={seed} evaluations={evaluations} distinct_nontrivial={len(keys)} "
        f"violations={reported} known={len(printed_known)} wall={wall_s:.1f}s runs/h={runs_per_hour:.0f}"
    )
    if harness_msgs:
        for m in harness_msgs[:6]:
            print("HARNESS-ERROR " + m.replace("\n", " | ")[:900])
        if len(harness_msgs) > 6:
            print(f"HARNESS-ERROR ... and {len(harness_msgs) - 6} more")
        if rc == 0:
            rc = 2
    if evaluations == 0 and rc == 0:
        print("HARNESS-ERROR nothing evaluated")
        rc = 2
    return rc
