"""Shared helpers for exposure-based properties (C01, C02, C03)."""

from __future__ import annotations

import copy
import traceback
from typing import Any, Optional

import numpy as np

from . import sched, probes, ref, world


def run_exposure(scn: dict, *, builder: str = "python", yaml_rng=None, debug: bool = False, inherited: bool = True, objects=None, reset: bool = True) -> dict:
    import pyxel

    if reset:
        world.reset_process_state()
    rec: dict[str, Any] = {"exc": None, "tree": None}
    try:
        if objects is not None:
            mode, det, pipe = objects
        elif builder == "yaml":
            mode, det, pipe = world.build_yaml(scn, yaml_rng)
        else:
            mode, det, pipe = world.build_python(scn)
        rec["objects"] = (mode, det, pipe)
        start = len(probes.HIST)
        rec["tree"] = pyxel.run_mode(mode=mode, detector=det, pipeline=pipe, debug=debug, with_inherited_coords=inherited)
    except sched.HarnessError:
        raise
    except BaseException as exc:  # noqa: BLE001
        rec["exc"] = exc
        rec["tb"] = traceback.format_exc(limit=5)
        start = rec.get("start", 0)
    rec["hist"] = list(probes.HIST)
    return rec


def norm(x: Any) -> Any:
    """Normalise argument values for comparison (tuples == lists, numpy scalars == python)."""
    if isinstance(x, np.ndarray):
        return norm(x.tolist())
    if isinstance(x, (np.integer,)):
        return int(x)
    if isinstance(x, (np.floating,)):
        return float(x)
    if isinstance(x, (np.bool_,)):
        return bool(x)
    if isinstance(x, dict):
        return {str(k): norm(v) for k, v in x.items()}
    if isinstance(x, (list, tuple)):
        return [norm(v) for v in x]
    return x


def same_args(a: dict, b: dict) -> bool:
    na, nb = norm(a), norm(b)
    if set(na) != set(nb):
        return False
    for k in na:
        x, y = na[k], nb[k]
        if isinstance(x, bool) != isinstance(y, bool):
            return False
        if isinstance(x, (int, float)) and isinstance(y, (int, float)) and not isinstance(x, bool):
            if float(x) != float(y):
                return False
        elif x != y:
            return False
    return True


def expected_events(scn: dict, overrides: Optional[dict] = None, upto: Optional[tuple] = None) -> list[tuple]:
    """[(step, name, arguments)] in the order the statement prescribes."""
    r = ref.simulate(scn, overrides=overrides)
    return [(i, name, args) for (i, g, name, args) in r["events"]]


def events_of(hist: list[dict]) -> list[tuple]:
    return [(ev["step"], ev["name"], ev["kwargs"]) for ev in hist]


def compare_events(got: list[tuple], exp: list[tuple], prefix_ok: bool = False) -> Optional[str]:
    if prefix_ok:
        exp = exp[: len(got)]
    if len(got) != len(exp):
        return f"{len(got)} model executions, expected {len(exp)}: got {[(s, n) for s, n, _ in got][:30]} expected {[(s, n) for s, n, _ in exp][:30]}"
    for k, ((s1, n1, a1), (s2, n2, a2)) in enumerate(zip(got, exp)):
        if (s1, n1) != (s2, n2):
            return f"execution #{k}: ran {n1!r} at step {s1}, expected {n2!r} at step {s2}"
        if not same_args(a1, a2):
            return f"execution #{k} ({n1} step {s1}): received arguments {norm(a1)!r}, configured {norm(a2)!r}"
    return None


def last_after_per_step(hist: list[dict], run: Optional[int] = None) -> dict[int, dict]:
    out: dict[int, dict] = {}
    for ev in hist:
        if run is not None and ev["run"] != run:
            continue
        if "after" in ev:
            out[ev["step"]] = ev
    return out


_ = copy
