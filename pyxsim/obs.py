"""Shared scenario generation / execution for observation-based properties (C05, C06, C07, C09)."""

from __future__ import annotations

import contextlib
import copy
import os
import random
import traceback
from typing import Any, Optional

import numpy as np

from . import probes, ref, sched, seams, select, world

POLICIES = ("fifo", "lifo", "random", "preempt", "pct")


def gen_sched(rng, preemptive_ok: bool = True) -> dict:
    pol = rng.choice(POLICIES if preemptive_ok else ("fifo", "lifo", "random"))
    return {
        "policy": pol,
        "workers": rng.choice([1, 2, 3, 4, 8, 16]),
        "preempt_p": rng.choice([0.1, 0.3, 0.6]),
        "pct_d": rng.randint(1, 4),
        "procs": (rng.random() < 0.15) if pol in ("fifo", "lifo", "random") else False,
        "sim_seed": rng.randrange(2**31),
        # line-level pre-emption inside named repository functions (sys.monitoring), pre-emptive policies only
        "lines": (rng.random() < 0.5) if pol in ("preempt", "pct") else False,
    }


_NUMPY_EXPRS = [
    ("numpy.arange(2, 5)", [2, 3, 4]),
    ("numpy.arange(10, 14, 2)", [10, 12]),
    ("numpy.linspace(0.5, 2.0, 3)", [0.5, 1.25, 2.0]),
    ("numpy.array([4, 9])", [4, 9]),
]


def gen_parameters(rng, scn: dict, nmax: int = 3, allow_vec: bool = True, allow_fields: bool = True, allow_disabled: bool = True, max_runs: int = 12) -> list[dict]:
    models = [(g, m) for g, m in world.all_models(scn) if m.get("enabled", True)]
    cands: list[dict] = []
    for g, m in models:
        base = f"pipeline.{g}.{m['name']}.arguments"
        cands.append({"kind": "level", "key": f"{base}.level", "model": m})
        if allow_vec and "vec" in m["arguments"]:
            cands.append({"kind": "vec", "key": f"{base}.vec", "model": m})
    if allow_fields:
        cands.append({"kind": "qe", "key": "detector.characteristics.quantum_efficiency"})
        cands.append({"kind": "temp", "key": "detector.environment.temperature"})
    rng.shuffle(cands)
    out: list[dict] = []
    total = 1
    for c in cands[: rng.randint(1, nmax)]:
        if c["kind"] == "level":
            default = c["model"]["arguments"].get("level")
            if rng.random() < 0.3:
                expr, vals = rng.choice(_NUMPY_EXPRS)
                if default in vals:
                    continue
                values: Any = expr
                n = len(vals)
            else:
                pool = [v for v in [1, 2, 3, 5, 8, 0.5, 1.5, 11, 20] if v != default]
                n = rng.randint(1, 3)
                values = rng.sample(pool, n)
        elif c["kind"] == "vec":
            ln = len(c["model"]["arguments"]["vec"])
            n = rng.randint(1, 3)
            values = []
            while len(values) < n:
                v = [rng.choice([1, 2, 3, 4, 5, 6.5]) for _ in range(ln)]
                if v not in values and v != c["model"]["arguments"]["vec"]:
                    values.append(v)
        elif c["kind"] == "qe":
            pool = [v for v in [0.1, 0.25, 0.5, 0.75, 1.0] if v != scn["detector"]["qe"]]
            n = rng.randint(1, 3)
            values = sorted(rng.sample(pool, n))
        else:
            pool = [v for v in [100.0, 150.0, 250.0, 290.0] if v != scn["detector"]["temperature"]]
            n = rng.randint(1, 3)
            values = rng.sample(pool, n)
        enabled = True
        if allow_disabled and out and rng.random() < 0.15:
            enabled = False
        if enabled and total * n > max_runs:
            continue
        if enabled:
            total *= n
        out.append({"key": c["key"], "values": values, "enabled": enabled})
    if not any(p["enabled"] for p in out):
        g, m = models[0]
        default = m["arguments"].get("level")
        out.append({"key": f"pipeline.{g}.{m['name']}.arguments.level", "values": [v for v in [2, 3] if v != default], "enabled": True})
    return out


def ensure_fields_visible(scn: dict) -> None:
    """Make detector-field sweeps observable: the last enabled writer reads the fields."""
    keys = [p["key"] for p in scn["mode"]["parameters"] if p.get("enabled", True)]
    if any(k.startswith("detector.") for k in keys):
        for g, m in reversed(world.all_models(scn)):
            if m.get("enabled", True) and m["arguments"].get("write"):
                m["arguments"]["use_fields"] = True
                return


def gen_observation(rng, tier: str, *, stochastic_p: float = 0.3, sleep_p: float = 0.5, stateful_p: float = 0.2, mutate_p: float = 0.0, obs_modes=("product", "product", "sequential"), outputs: bool = False) -> dict:
    scn: dict[str, Any] = {
        "detector": world.gen_detector(rng),
        "pipeline": world.gen_pipeline(rng, max_per_group=2, group_p=0.35, free_args=1, p_disabled=0.2),
        "readout": world.gen_times(rng, nmax=3),
    }
    # make sure at least one enabled writer exists
    en = [(g, m) for g, m in world.all_models(scn) if m.get("enabled", True)]
    if not en:
        g, m = world.all_models(scn)[0]
        m["enabled"] = True
        en = [(g, m)]
    if not any(m["arguments"].get("write") for _, m in en):
        en[0][1]["arguments"]["write"] = ["pixel", "signal"]
    for _, m in en:
        a = m["arguments"]
        if rng.random() < 0.4:
            a["vec"] = [rng.choice([0, 1, 2]) for _ in range(rng.randint(2, 3))]
        if rng.random() < sleep_p:
            a["sleep"] = rng.choice([0.5, 1.0, 2.0])
        if rng.random() < stateful_p:
            a["stateful"] = True
        if rng.random() < mutate_p:
            a["mutate"] = True
            a["mvec"] = [1.0, 2.0]
            a["extra"] = {"k": 1}
    stochastic = rng.random() < stochastic_p
    if stochastic:
        for _, m in en:
            if rng.random() < 0.7:
                m["arguments"]["draws"] = rng.randint(1, 3)
        if not any(m["arguments"].get("draws") for _, m in en):
            en[0][1]["arguments"]["draws"] = 2
    scn["mode"] = {
        "kind": "observation",
        "obs_mode": rng.choice(list(obs_modes)),
        "with_dask": True,
        "pipeline_seed": (lambda s: 0 if s % 8 == 0 else s)(rng.randrange(1, 2**20)) if stochastic else None,  # 0 is a legal (falsy) seed
        "parameters": [],
    }
    scn["mode"]["parameters"] = gen_parameters(rng, scn)
    ensure_fields_visible(scn)
    scn["sched"] = gen_sched(rng)
    return scn


def defaults_for(scn: dict, keys: list[str]) -> dict:
    out = {}
    for k in keys:
        parts = k.split(".")
        if parts[0] == "detector":
            out[k] = scn["detector"]["qe"] if parts[-1] == "quantum_efficiency" else scn["detector"]["temperature"]
        else:
            _, g, name, _, arg = parts
            for m in scn["pipeline"].get(g) or []:
                if m["name"] == name:
                    out[k] = copy.deepcopy(m["arguments"].get(arg))
    return out


def expected_space(scn: dict) -> tuple[list[dict], list[Optional[tuple]]]:
    mode = scn["mode"]
    params = mode["parameters"]
    en = [p for p in params if p.get("enabled", True)]
    om = mode.get("obs_mode", "product")
    if om == "product":
        import itertools

        lists = [ref.param_values(p) for p in en]
        combos = [dict(zip([p["key"] for p in en], c)) for c in itertools.product(*lists)]
        idx = list(itertools.product(*[range(len(l)) for l in lists]))
        return combos, idx
    if om == "sequential":
        keys = []
        for p in en:
            if p["key"] not in keys:
                keys.append(p["key"])
        combos = ref.parameter_space("sequential", params, defaults=defaults_for(scn, keys))
        return combos, [None] * len(combos)
    combos = ref.parameter_space("custom", params, table=mode.get("table"))
    return combos, [None] * len(combos)


def load_tree(tree):
    """Force every lazy variable of a DataTree (one compute for the whole tree)."""
    import dask

    lazy = []
    for node in tree.subtree:
        for name, var in node.data_vars.items():
            lazy.append((node.path, name, var))
        for name, var in node.coords.items():
            if hasattr(var.data, "dask"):
                lazy.append((node.path, name, var))
    arrays = [v.data for _, _, v in lazy]
    computed = dask.compute(*arrays)
    out: dict[tuple, np.ndarray] = {}
    for (path, name, _), arr in zip(lazy, computed):
        out[(path, name)] = np.asarray(arr)
    return out


def run_observation(scn: dict, with_dask: bool, *, simulate: bool = True, forced=None, builder: str = "python", yaml_rng=None, keep_objects: bool = False, warmup: bool = False, objects=None) -> dict:
    """Run the scenario's observation; returns a record with result/exception/history/sim stats."""
    import pyxel

    if objects is None:
        world.reset_process_state()
    else:
        probes.HIST.clear()
    s = copy.deepcopy(scn)
    s["mode"]["with_dask"] = with_dask
    rec: dict[str, Any] = {"exc": None, "tree": None, "hist": None, "sim": None, "rng": None}
    try:
        if objects is not None:
            mode, det, pipe = objects  # history: the caller runs the very same objects again
        elif builder == "yaml":
            mode, det, pipe = world.build_yaml(s, yaml_rng)
        else:
            mode, det, pipe = world.build_python(s)
    except Exception as exc:  # construction of the user's objects failed
        rec["exc"] = exc
        rec["tb"] = traceback.format_exc(limit=6)
        rec["phase"] = "build"
        rec["hist"] = []
        rec["rng_restored"] = True
        return rec
    if keep_objects:
        rec["objects"] = (mode, det, pipe)
    if warmup:
        # history: the caller has already used these very objects for a plain exposure
        from pyxel.exposure import Exposure

        try:
            pyxel.run_mode(mode=Exposure(readout=mode.readout), detector=det, pipeline=pipe, with_inherited_coords=True)
        except Exception as exc:  # noqa: BLE001
            rec["warmup_exc"] = exc
        probes.HIST.clear()
    state_before = np.random.get_state()
    sc = scn.get("sched") or {}
    sim = None
    rs = seams.RngSeam()
    try:
        if with_dask and simulate:
            sim = sched.Sim(
                random.Random(sc.get("sim_seed", 0)),
                policy=sc.get("policy", "random"),
                workers=sc.get("workers", 4),
                preempt_p=sc.get("preempt_p", 0.0),
                pct_d=sc.get("pct_d", 0),
                forced=forced,
                procs=sc.get("procs", False),
            )
            ls = seams.LineSeam() if sc.get("lines") else contextlib.nullcontext()
            with rs.active(), (ls.active() if sc.get("lines") else ls), sim.running():
                tree = pyxel.run_mode(mode=mode, detector=det, pipeline=pipe, with_inherited_coords=True)
                rec["lazy_tree"] = tree
                tree = tree.compute()
            if sc.get("lines"):
                rec["line_hits"] = ls.hits
        else:
            tree = pyxel.run_mode(mode=mode, detector=det, pipeline=pipe, with_inherited_coords=True)
            if with_dask:
                tree = tree.compute()
        rec["tree"] = tree
    except sched.HarnessError:
        raise
    except BaseException as exc:  # noqa: BLE001 - we want everything a user would see
        rec["exc"] = exc
        rec["tb"] = traceback.format_exc(limit=6)
    state_after = np.random.get_state()
    rec["rng_restored"] = _state_eq(state_before, state_after)
    rec["hist"] = list(probes.HIST)
    if sim is not None:
        rec["sim"] = {
            "digest": sim.digest(),
            "decisions": list(sim.decisions),
            "contested": sim.contested,
            "preemptions": sim.preemptions,
            "now": sim.now,
            "stats": dict(sim.stats),
            "completion": list(sim.completion_order),
            "max_concurrent": sim.max_concurrent,
            "broken": sim.broken,
        }
        rec["rng"] = {"overlap": rs.overlap, "ops": len(rs.log)}
    return rec


def _state_eq(a, b) -> bool:
    return a[0] == b[0] and bool(np.array_equal(a[1], b[1])) and a[2:] == b[2:]


def bucket_ds(tree):
    if "bucket" in tree.children:
        return tree["/bucket"].to_dataset()
    return tree.to_dataset()


def per_run_values(scn: dict, tree) -> tuple[list[Optional[dict]], list[str]]:
    """For every element of the expected space: the selected bucket arrays (or None) + label problems."""
    combos, idx = expected_space(scn)
    en = [p for p in scn["mode"]["parameters"] if p.get("enabled", True)]
    names = select.dim_names([p["key"] for p in en])
    ds = bucket_ds(tree)
    out, problems = [], []
    for r, (combo, ix) in enumerate(zip(combos, idx)):
        try:
            sel = select.positions(ds, names, combo, ix, r, start_time=scn["readout"].get("start_time", 0.0))
            out.append(select.run_slice(ds, sel))
        except select.LabelError as exc:
            out.append(None)
            problems.append(f"{exc.kind}: {exc}")
    nvalues = {p["key"]: len(ref.param_values(p)) for p in en}
    msg = select.expected_sizes(ds, names, en, nvalues, len(combos))
    if msg:
        problems.append("extra: " + msg)
    return out, problems


def predicted_run(scn: dict, combo: dict) -> dict[str, np.ndarray]:
    """Reference-model buckets (time, y, x) for one parameter combination."""
    r = ref.simulate(scn, overrides=combo)
    out: dict[str, np.ndarray] = {}
    for b in ref.BUCKETS:
        vals = [st[b] for st in r["steps"]]
        if all(v is None for v in vals):
            continue
        out[b] = np.stack([np.asarray(v) for v in vals if v is not None])
    return out


def hist_digest(hist: list[dict]) -> str:
    import hashlib

    h = hashlib.sha256()
    for ev in hist:
        h.update(repr((ev["run"], ev["name"], ev["step"], ev.get("v"), ev["thread"], ev.get("raised"))).encode())
    return h.hexdigest()[:16]


def tree_digest(tree) -> str:
    import hashlib

    h = hashlib.sha256()
    if tree is None:
        return "none"
    for node in tree.subtree:
        for name in sorted(node.data_vars):
            v = np.asarray(node[name].values)
            h.update(f"{node.path}/{name}:{v.dtype}:{v.shape}".encode())
            if v.dtype == object:
                h.update(repr(v.tolist()).encode())
            else:
                h.update(np.ascontiguousarray(v).tobytes())
    return h.hexdigest()[:16]


def shrink_observation(scn: dict):
    """Candidate simplifications, most aggressive first."""
    s = scn
    # 1 worker / fifo
    if s.get("sched", {}).get("workers", 1) > 2:
        c = copy.deepcopy(s)
        c["sched"]["workers"] = 2
        yield c
    # drop parameters
    ps = s["mode"]["parameters"]
    if len(ps) > 1:
        for i in range(len(ps)):
            c = copy.deepcopy(s)
            del c["mode"]["parameters"][i]
            if any(p.get("enabled", True) for p in c["mode"]["parameters"]):
                yield c
    # shorten value lists
    for i, p in enumerate(ps):
        if isinstance(p["values"], list) and len(p["values"]) > 1:
            for j in range(len(p["values"])):
                c = copy.deepcopy(s)
                del c["mode"]["parameters"][i]["values"][j]
                yield c
    # drop models not referenced by a parameter
    keys = " ".join(p["key"] for p in ps)
    for g, ms in s["pipeline"].items():
        for i, m in enumerate(ms or []):
            if f".{g}.{m['name']}." in keys:
                continue
            c = copy.deepcopy(s)
            del c["pipeline"][g][i]
            if not c["pipeline"][g]:
                del c["pipeline"][g]
            if any((mm.get("enabled", True) for _, mm in world.all_models(c))):
                yield c
    # fewer readout steps
    if len(s["readout"]["times"]) > 1:
        c = copy.deepcopy(s)
        c["readout"]["times"] = c["readout"]["times"][:-1]
        yield c
    # strip optional probe features
    for g, m in world.all_models(s):
        for feat in ("sleep", "stateful", "mutate", "mvec", "extra", "draws", "vec", "use_fields"):
            if feat in m["arguments"] and f".{m['name']}.arguments.{feat}" not in keys:
                c = copy.deepcopy(s)
                for g2, m2 in world.all_models(c):
                    if m2["name"] == m["name"]:
                        m2["arguments"].pop(feat, None)
                yield c
    _ = os
