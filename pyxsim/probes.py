"""Probe models referenced from generated pipelines as ``pyxsim.probes.P``.

A probe records what it was given and what it saw (clock, detector fields,
buckets before/after), then acts on the detector through the public container
API with values that are a closed-form function of exactly those observations
(`pyxsim.ref.scalar_value`).  It is also the place where scenario-directed
faults, virtual delays, RNG draws, argument mutation and detector memory live.
"""

from __future__ import annotations

import copy
import weakref
from typing import Any

import numpy as np

from . import ref, sched

HIST: list[dict] = []
_RUNS: dict[int, tuple] = {}
_NRUNS = [0]
_CALLS: dict[str, int] = {}
FAULTS_FIRED: dict[str, int] = {}
CONTROL: dict[str, Any] = {}


class ProbeError(Exception):
    """User-defined exception with a non-trivial constructor."""

    def __init__(self, code: int, text: str):
        super().__init__(code, text)
        self.code = code
        self.text = text

    def __str__(self) -> str:
        return f"[{self.code}] {self.text}"


def _builtin_exception_classes() -> dict:
    """Every built-in Exception subclass that can be raised with a single message argument."""
    import builtins

    out = {}
    for name in sorted(dir(builtins)):
        obj = getattr(builtins, name)
        if isinstance(obj, type) and issubclass(obj, Exception) and not issubclass(obj, (Warning,)) and name not in ("ExceptionGroup", "BaseExceptionGroup"):
            try:
                obj("probe")
            except Exception:  # noqa: BLE001 - needs structured arguments (UnicodeDecodeError ...)
                continue
            if obj.__name__ == name:  # skip aliases (IOError, EnvironmentError are OSError)
                out[name] = obj
    out["UserWarning"] = UserWarning
    return out


EXC = _builtin_exception_classes()
EXC["ProbeError"] = ProbeError


def reset() -> None:
    HIST.clear()
    _RUNS.clear()
    _NRUNS[0] = 0
    _CALLS.clear()
    FAULTS_FIRED.clear()
    CONTROL.clear()


def run_id(det) -> int:
    ent = _RUNS.get(id(det))
    if ent is not None and ent[0]() is det:
        return ent[1]
    rid = _NRUNS[0]
    _NRUNS[0] += 1
    try:
        _RUNS[id(det)] = (weakref.ref(det), rid)
    except TypeError:  # pragma: no cover
        _RUNS[id(det)] = ((lambda d=det: d), rid)
    return rid


def jsonable(x: Any) -> Any:
    if isinstance(x, np.ndarray):
        return {"__nd__": x.tolist(), "dtype": str(x.dtype)}
    if isinstance(x, (np.integer,)):
        return int(x)
    if isinstance(x, (np.floating,)):
        return float(x)
    if isinstance(x, (np.bool_,)):
        return bool(x)
    if isinstance(x, dict):
        return {str(k): jsonable(v) for k, v in x.items()}
    if isinstance(x, (list, tuple)):
        return [jsonable(v) for v in x]
    return x


TRUTH_FROM_FRAME = False  # C03: take the charge content from the cluster table, not from the (possibly cached) array view


def snap(det) -> dict:
    """Public-API snapshot of the five array buckets (None = empty)."""
    out: dict[str, Any] = {}
    try:
        ph = det.photon
        try:
            out["photon"] = np.array(ph.array)
        except TypeError:
            out["photon"] = np.array(ph.array_3d.values)
        except ValueError:
            out["photon"] = None
    except Exception:
        out["photon"] = None
    truth = None
    if TRUTH_FROM_FRAME:
        # what the detector holds, computed from the cluster table itself (before the array view is read): the view may be
        # a cached conversion
        try:
            fr = det.charge._frame
            if len(fr):
                geo = det.geometry
                truth = np.zeros((geo.row, geo.col))
                iy = np.floor_divide(fr["position_ver"].to_numpy(dtype=float), geo.pixel_vert_size).astype(int)
                ix = np.floor_divide(fr["position_hor"].to_numpy(dtype=float), geo.pixel_horz_size).astype(int)
                num = fr["number"].to_numpy(dtype=float)
                ok = (iy >= 0) & (iy < geo.row) & (ix >= 0) & (ix < geo.col)
                np.add.at(truth, (iy[ok], ix[ok]), num[ok])
        except Exception:
            truth = None
    try:
        out["charge"] = np.array(det.charge.array)
        out["charge_frame_len"] = len(det.charge.frame)
        if truth is not None:
            out["charge_view"] = out["charge"]
            out["charge"] = truth
    except Exception:
        out["charge"] = None
    for name in ("pixel", "signal", "image"):
        try:
            out[name] = np.array(getattr(det, name).array)
        except Exception:
            out[name] = None
    try:
        out["scene_empty"] = bool(det.scene.data.is_empty)
    except Exception:
        out["scene_empty"] = None
    return out


def clock_of(det) -> dict:
    return {
        "time": float(det.time),
        "time_step": float(det.time_step),
        "absolute_time": float(det.absolute_time),
        "pipeline_count": int(det.pipeline_count),
        "is_first_readout": bool(det.is_first_readout),
        "is_last_readout": bool(det.is_last_readout),
        "num_steps": int(det.num_steps),
    }


def fields_of(det) -> dict:
    out = {}
    try:
        out["qe"] = float(det.characteristics.quantum_efficiency)
    except Exception:
        out["qe"] = None
    try:
        out["temperature"] = float(det.environment.temperature)
    except Exception:
        out["temperature"] = None
    return out


FOREIGN_COORDS = [False]  # set per probe call from its 'foreign_coords' argument


def _write(det, bucket: str, arr) -> None:
    if bucket == "photon":
        det.photon.array = arr
    elif bucket == "photon3d":
        import xarray as xr

        nw = arr.shape[0]
        coords = {"wavelength": [500.0 + 10.0 * k for k in range(nw)]}
        if FOREIGN_COORDS[0]:
            # a cube cut out of a bigger one keeps the row / column labels of its origin
            coords["y"] = [100 + k for k in range(arr.shape[1])]
            coords["x"] = [200 + k for k in range(arr.shape[2])]
        det.photon.array_3d = xr.DataArray(arr, dims=("wavelength", "y", "x"), coords=coords)
    elif bucket == "photon+":
        # in-place accumulation through the container's += operator
        try:
            det.photon.array  # noqa: B018 - initialised 2-D?
            det.photon += arr
        except (ValueError, TypeError):
            det.photon.array = arr
    elif bucket == "photon3d+":
        import xarray as xr

        nw = arr.shape[0]
        da = xr.DataArray(arr, dims=("wavelength", "y", "x"), coords={"wavelength": [500.0 + 10.0 * k for k in range(nw)]})
        try:
            det.photon.array_3d  # noqa: B018
            det.photon += da
        except (ValueError, TypeError):
            det.photon.array_3d = da
    elif bucket == "charge":
        det.charge.add_charge_array(arr)
    elif bucket == "clusters":
        n = 2
        rows, cols = det.geometry.row, det.geometry.col
        pv, ph = det.geometry.pixel_vert_size, det.geometry.pixel_horz_size
        det.charge.add_charge(
            particle_type="e",
            particles_per_cluster=np.array([float(arr[0, 0]), float(arr[-1, -1])]),
            init_energy=np.zeros(n),
            init_ver_position=np.array([0.5 * pv, (rows - 0.5) * pv]),
            init_hor_position=np.array([0.5 * ph, (cols - 0.5) * ph]),
            init_z_position=np.zeros(n),
            init_ver_velocity=np.zeros(n),
            init_hor_velocity=np.zeros(n),
            init_z_velocity=np.zeros(n),
        )
    elif bucket == "pixel":
        try:
            det.pixel.array = det.pixel.array + arr
        except ValueError:
            det.pixel.array = arr
    elif bucket == "clusters*2":
        # a charge-transfer style model that edits the existing clusters in place
        num = det.charge.get_frame_values("number")
        if len(num):
            det.charge.set_frame_values("number", [float(x) * 2.0 for x in num])
    elif bucket == "pixel=charge":
        # a collection model that hands the charge array over by assignment: the two containers then share one array object
        det.pixel.array = det.charge.array
    elif bucket == "signal":
        det.signal.array = arr
    elif bucket == "image":
        det.image.array = arr
    elif bucket == "phase":
        det.phase.array = arr
    else:
        raise ValueError(bucket)


def _write_scene(det, v: float) -> None:
    import xarray as xr

    src = xr.Dataset(
        {
            "x": ("ref", [v, v + 1.0]),
            "y": ("ref", [v + 2.0, v + 3.0]),
            "weight": ("ref", [1.0, 2.0]),
            "flux": (("ref", "wavelength"), [[v, v * 2.0, 0.5], [1.0, 2.0, v]]),
        },
        coords={"ref": [0, 1], "wavelength": [400.0, 500.0, 600.0]},
    )
    det.scene.add_source(src)


def _write_data(det, tag: str, v: float, step: int) -> None:
    import xarray as xr

    det.data[f"/probe/{tag}"] = xr.DataTree(xr.Dataset({"v": ("k", [v, float(step)])}, coords={"k": [0, 1]}))


def tree_snapshot(det) -> dict:
    out = {}
    try:
        out["scene"] = det.scene.data.copy()
    except Exception:
        out["scene"] = None
    try:
        out["data"] = det.data.copy()
    except Exception:
        out["data"] = None
    return out


def P(detector, **kw) -> None:  # noqa: N802 - referenced from YAML as pyxsim.probes.P
    sim = sched.current_sim()
    if sim is not None:
        sim.yield_point("probe")
    rid = run_id(detector)
    tag = kw.get("tag", "")
    ncall = _CALLS.get(tag, 0)
    _CALLS[tag] = ncall + 1
    clk = clock_of(detector)
    flds = fields_of(detector)
    me = sim.me() if sim is not None else None
    ev: dict[str, Any] = {
        "ev": "call",
        "run": rid,
        "name": getattr(detector, "current_running_model_name", None),
        "tag": tag,
        "step": clk["pipeline_count"],
        "kwargs": copy.deepcopy(dict(kw)),
        "clock": clk,
        "fields": flds,
        "before": snap(detector),
        "thread": me.key if me is not None else "-",
        "ncall": ncall,
        "det_type": type(detector).__name__,
        "shape": (detector.geometry.row, detector.geometry.col),
    }
    HIST.append(ev)

    # virtual, data-dependent delay
    sl = kw.get("sleep")
    if sl and sim is not None:
        lvl = kw.get("level", 0.0)
        lvl = float(lvl) if isinstance(lvl, (int, float)) else 0.0
        sim.sleep(float(sl) * (1.0 + abs(lvl) % 4.0))

    # scenario-directed failure
    f = kw.get("fail")
    if f:
        ok = True
        if f.get("step") is not None and f["step"] != clk["pipeline_count"]:
            ok = False
        if f.get("level") is not None and f["level"] != kw.get("level"):
            ok = False
        if f.get("call") is not None and f["call"] != ncall:
            ok = False
        if ok:
            name = f.get("exc", "ValueError")
            FAULTS_FIRED[name] = FAULTS_FIRED.get(name, 0) + 1
            ev["raised"] = name
            msg = f"injected:{tag}:{name}"
            err = ProbeError(42, msg) if name == "ProbeError" else EXC[name](msg)
            if f.get("noted"):
                # an error that already carries a note of its own when it leaves the model
                err.add_note("note attached by the model itself")
            raise err

    # randomness
    draws = 0.0
    n = int(kw.get("draws") or 0)
    if n:
        if kw.get("seed") is not None:
            from pyxel.util import set_random_seed

            with set_random_seed(int(kw["seed"])):
                vals = [float(np.random.random()) for _ in range(n)]
        else:
            vals = [float(np.random.random()) for _ in range(n)]
        ev["drawn"] = vals
        draws = float(sum(vals))

    # detector memory
    nmem = 0
    if kw.get("stateful"):
        memory = getattr(detector, "_memory", None)
        if memory is None:
            memory = detector.__dict__.setdefault("_probe_memory", {})
        nmem = int(memory.get("probe:" + tag, 0))
        memory["probe:" + tag] = nmem + 1
        ev["mem"] = nmem

    v = ref.scalar_value(kw, clk, flds, nmem, draws)
    ev["v"] = v
    rows, cols = ev["shape"]
    FOREIGN_COORDS[0] = bool(kw.get("foreign_coords"))
    for b in kw.get("write") or []:
        if b == "scene":
            _write_scene(detector, v)
        elif b == "data":
            _write_data(detector, tag, v, clk["pipeline_count"])
        elif b == "data_empty":
            import xarray as xr

            # groups without data variables: coordinates only, and an empty placeholder
            detector.data[f"/probe/{tag}_coords"] = xr.DataTree(xr.Dataset(coords={"k": [0, 1, 2]}))
            detector.data[f"/probe/{tag}_placeholder"] = xr.DataTree()
        else:
            _write(detector, b, ref.bucket_array(b, v, rows, cols, kw))
    if kw.get("snap_trees"):
        ev["trees"] = tree_snapshot(detector)

    # in-place mutation of own arguments (a misbehaving but legal user model)
    if kw.get("mutate"):
        mvec = kw.get("mvec")
        if isinstance(mvec, list):
            mvec.append(99.0)
        elif isinstance(mvec, np.ndarray):
            mvec += 1.0
        extra = kw.get("extra")
        if isinstance(extra, dict):
            extra["touched"] = extra.get("touched", 0) + 1

    if kw.get("mutate_vec"):
        # a model that works in place on the vector it was given (for instance the calibrated one)
        vec = kw.get("vec")
        if isinstance(vec, np.ndarray) and vec.size:
            vec += 1000.0
        elif isinstance(vec, list) and vec:
            vec[0] = vec[0] + 1000.0

    ev["after"] = snap(detector)
    if sim is not None:
        sim.event("probe", (rid, tag, clk["pipeline_count"]))


def by_run() -> dict[int, list[dict]]:
    out: dict[int, list[dict]] = {}
    for ev in HIST:
        out.setdefault(ev["run"], []).append(ev)
    return out
