"""C01 — enabled models run once per readout, in the fixed physical group order."""

from __future__ import annotations

import copy
import hashlib
import random

from .. import expo, obs, ref, world

ID = "C01"
LEVEL = "exploration"
FORCED_OK = False
TECHNIQUE = "deterministic simulation: probe models record every execution inside simulated runs (exposure, sequential and scheduler-driven parallel observation, injected model failure); ordering + exactly-once invariant over the recorded history against an independent reference order; YAML/Python twin construction"
LEVEL_TEXT = "seeded exploration over generated pipelines (all ten groups, 0..3 models each, enabled patterns, argument dictionaries, 1..5 readouts), all running modes (exposure, sequential / parallel observation, calibration under the scheduler), debug on/off, shuffled-YAML twins, parallel interleavings and failure prefixes; sampled, not exhaustive"
LEVEL_NOTE = "trusted: the probe model and the literal canonical order in pyxsim/ref.py (written from the statement); in calibration mode the values of the calibrated arguments are whatever each evaluation applied (the C10 check decides those)"
RULE = (
    "generated pipeline over the ten groups with probe models; run as exposure (python objects and shuffled-YAML twin, debug on/off), "
    "sequential observation or parallel observation under the seeded scheduler, optionally with a model failure injected at a drawn (step, position); "
    "distinct = distinct (enabled-order signature, mode, #steps); non-trivial = at least two groups with an enabled model and at least one disabled model or absent group"
)
ASSUMPTIONS = [
    "the probe records name, step and a deep copy of the keyword arguments it received; the expected order is the literal list in pyxsim/ref.py",
    "argument equality treats tuples and lists as equal sequences (the parallel path passes vector values as tuples)",
    "in the parallel path one parameter combination (the first of the sorted space) is executed one extra time (shape discovery); that duplicate execution is allowed, per DESIGN.md C05",
]
COMPONENTS = {"real": ["pyxel pipeline/processor/configuration", "dask get_async", "PyYAML"], "stub": ["thread pool"]}
BUDGET = {"quick": {"n": 480, "wall": 100, "determinism": 4}, "thorough": {"n": 24000, "wall": 1500, "determinism": 12}}
REQUIRED_REACH = ["variant:calibration", "calibration_evaluations", "reconfigured_rerun", "warmup_then_observation", "variant:exposure", "variant:obs-seq", "variant:obs-par", "fault_prefix_checked", "yaml_twin", "debug_runs", "all_ten_groups"]


def _gen_calibration(rng, tier):
    """Calibration mode: the two probes of the calibration world inside a generated ten-group pipeline."""
    from .. import calib

    scn = calib.gen_calibration(rng, tier, fit_ranges="full", multi_readout_p=0.35, weights_p=0.0, n_targets=(1, 2), islands=(1, 1, 2))
    extra = world.gen_pipeline(rng, max_per_group=2, group_p=rng.choice([0.5, 0.8, 1.0]), free_args=2, p_disabled=0.3)
    pipe = {}
    for g in ref.CANONICAL_GROUPS:
        ms = list(extra.get(g) or [])
        for m in ms:
            # the subject of the calibration stays the 'cal' probe: the others must not claim its image type
            m["arguments"].pop("image_dtype", None)
            if "image" in (m["arguments"].get("write") or []):
                m["arguments"]["image_dtype"] = "uint32"
        for m in scn["pipeline"].get(g) or []:
            ms.insert(rng.randint(0, len(ms)), m)
        if ms:
            pipe[g] = ms
    scn["pipeline"] = pipe
    scn["variant"] = "calibration"
    scn["debug"] = False
    scn["fault"] = None
    scn["yaml_seed"] = 0
    scn["mode"]["algorithm"]["generations"] = 1
    scn["mode"]["num_evolutions"] = rng.randint(1, 2)
    return scn


def generate(rng, tier):
    if rng.random() < 0.07:
        return _gen_calibration(rng, tier)
    scn = {
        "detector": world.gen_detector(rng),
        "pipeline": world.gen_pipeline(rng, max_per_group=3, group_p=rng.choice([0.4, 0.7, 1.0]), free_args=3, p_disabled=0.3),
        "readout": world.gen_times(rng, nmax=5),
        "variant": rng.choice(["exposure", "exposure", "obs-seq", "obs-par"]),
        "debug": rng.random() < 0.5,
        "yaml_seed": rng.randrange(2**31),
        "fault": None,
    }
    en = [(g, m) for g, m in world.all_models(scn) if m.get("enabled", True)]
    if not en:
        g, m = world.all_models(scn)[0]
        m["enabled"] = True
        en = [(g, m)]
    # history: the same objects are run again after being reconfigured through the public interfaces
    scn["warmup"] = rng.random() < 0.5
    scn["reconf"] = []
    if rng.random() < 0.6:
        allm = world.all_models(scn)
        for _ in range(rng.randint(1, 3)):
            g, m = rng.choice(allm)
            how = rng.choice(["attr", "item", "processor", "enabled"])
            if how == "enabled":
                scn["reconf"].append({"group": g, "model": m["name"], "how": how, "value": not m.get("enabled", True)})
            else:
                scn["reconf"].append({"group": g, "model": m["name"], "how": how, "arg": "level", "value": rng.choice([11, 13.5, 17])})
    if scn["variant"] == "exposure":
        scn["mode"] = {"kind": "exposure"}
        if rng.random() < 0.3:
            g, m = rng.choice(en)
            step = rng.randrange(len(scn["readout"]["times"]))
            exc = rng.choice(["ValueError", "KeyError", "RuntimeError", "ProbeError"])
            m["arguments"]["fail"] = {"step": step, "exc": exc}
            scn["fault"] = {"tag": m["name"], "step": step, "exc": exc}
    else:
        scn["readout"]["times"] = scn["readout"]["times"][:3]
        scn["mode"] = {"kind": "observation", "obs_mode": rng.choice(["product", "sequential"]) if scn["variant"] == "obs-seq" else "product", "with_dask": scn["variant"] == "obs-par", "parameters": []}
        for _, m in en:
            if rng.random() < 0.3:
                m["arguments"]["vec"] = [rng.choice([0, 1, 2]) for _ in range(2)]
        scn["mode"]["parameters"] = obs.gen_parameters(rng, scn, max_runs=8)
        scn["sched"] = obs.gen_sched(rng)
    return scn


def shrink(scn):
    if scn["variant"] == "calibration":
        for g, ms in scn["pipeline"].items():
            for i, m in enumerate(ms or []):
                if m["name"] in ("cal", "oth"):
                    continue
                c = copy.deepcopy(scn)
                del c["pipeline"][g][i]
                yield c
        return
    for g, ms in scn["pipeline"].items():
        for i, m in enumerate(ms or []):
            if scn.get("fault") and scn["fault"]["tag"] == m["name"]:
                continue
            if scn["mode"]["kind"] == "observation" and any(f".{m['name']}." in p["key"] for p in scn["mode"]["parameters"]):
                continue
            c = copy.deepcopy(scn)
            del c["pipeline"][g][i]
            if not c["pipeline"][g]:
                del c["pipeline"][g]
            if world.all_models(c):
                yield c
    if len(scn["readout"]["times"]) > 1 and not scn.get("fault"):
        c = copy.deepcopy(scn)
        c["readout"]["times"] = c["readout"]["times"][:-1]
        yield c
    for g, m in world.all_models(scn):
        for k in list(m["arguments"]):
            if k.startswith("free"):
                c = copy.deepcopy(scn)
                for _, m2 in world.all_models(c):
                    if m2["name"] == m["name"]:
                        del m2["arguments"][k]
                yield c
    if scn["mode"]["kind"] == "observation":
        yield from obs.shrink_observation(scn)


def _reconfigure(scn, objects):
    """Apply scn['reconf'] to the live objects and return the scenario they now correspond to."""
    from pyxel.pipelines import Processor

    mode, det, pipe = objects
    s2 = copy.deepcopy(scn)
    for r in scn["reconf"]:
        mf = next(m for m in getattr(pipe, r["group"]).models if m.name == r["model"])
        mj = next(m for m in s2["pipeline"][r["group"]] if m["name"] == r["model"])
        if r["how"] == "enabled":
            mf.enabled = r["value"]
            mj["enabled"] = r["value"]
        else:
            if r["how"] == "attr":
                setattr(mf.arguments, r["arg"], r["value"])
            elif r["how"] == "item":
                mf.arguments[r["arg"]] = r["value"]
            else:
                Processor(detector=det, pipeline=pipe).set(f"pipeline.{r['group']}.{r['model']}.arguments.{r['arg']}", r["value"])
            mj["arguments"][r["arg"]] = r["value"]
    return s2


def _sig_order(scn):
    return ",".join(f"{g[:3]}:{m['name']}" for g, m in ref.enabled_models(scn["pipeline"]))


def _execute_calibration(scn, forced, stats, groups_present, n_dis):
    """Every fitness evaluation is one pipeline run: same order / exactly-once / configured-arguments rule, the calibrated
    arguments and the per-target input arguments being whatever the evaluation applied (C10 decides those values)."""
    from .. import calib

    viol = []
    rec = calib.run_calibration(scn, forced=forced)
    if rec["exc"] is not None:
        if type(rec["exc"]).__name__ == "SimDeadlock":
            viol.append({"clause": "C01.liveness", "signature": "C01.liveness@calibration", "detail": str(rec["exc"])[:300]})
        else:
            viol.append({"clause": "C01.runs", "signature": f"C01.runs@calibration-raises:{type(rec['exc']).__name__}", "detail": {"exc": repr(rec["exc"])[:300], "tb": rec.get("tb", "")[-800:]}})
    calibrated = {p["key"] for p in scn["mode"]["parameters"]} | {p["key"] for p in (scn["mode"].get("result_input_arguments") or []) if p["key"].startswith("pipeline.")}
    base = calib.scn_for_target(scn, 0)
    runs: dict = {}
    for ev in rec.get("hist") or []:
        runs.setdefault(ev["run"], []).append(ev)
    stats["calibration_evaluations"] = len(runs)
    for rid in sorted(runs):
        over = {}
        for ev in runs[rid]:
            for key in calibrated:
                _, g, name, _, arg = key.split(".")
                if ev["name"] == name and arg in ev["kwargs"]:
                    over[key] = ev["kwargs"][arg]
        msg = expo.compare_events(expo.events_of(runs[rid]), expo.expected_events(base, overrides=over))
        if msg:
            viol.append({"clause": "C01.order-once", "signature": "C01.order-once@calibration", "detail": {"run": rid, "thread": runs[rid][0].get("thread"), "problem": msg}})
            break
    if rec["exc"] is None and not runs:
        viol.append({"clause": "C01.order-once", "signature": "C01.missing-runs@calibration", "detail": "no pipeline evaluation was recorded"})
    sim = rec.get("sim") or {}
    if sim.get("contested"):
        stats["contested_runs"] = 1
    key = hashlib.sha256(f"{_sig_order(scn)}|calibration|{len(base['readout']['times'])}|{scn['mode']['num_islands']}".encode()).hexdigest()[:16]
    return {
        "violations": viol,
        "stats": stats,
        "nontrivial": len([g for g in groups_present if any(m.get("enabled", True) for m in scn["pipeline"][g])]) >= 2 and (n_dis > 0 or len(groups_present) < 10),
        "key": key,
        "digest": obs.hist_digest(rec.get("hist") or []) + ":" + (sim.get("digest") or ""),
        "sim_time": float(sim.get("now") or 0.0),
        "decisions": sim.get("decisions") or [],
        "sample": {"variant": "calibration", "order": _sig_order(scn), "steps": len(base["readout"]["times"]), "islands": scn["mode"]["num_islands"], "evaluations": len(runs), "policy": scn["sched"]["policy"]},
    }


def execute(scn, forced=None):
    viol, stats = [], {}
    variant = scn["variant"]
    stats["variant:" + variant] = 1
    groups_present = [g for g in ref.CANONICAL_GROUPS if scn["pipeline"].get(g)]
    if len(groups_present) == 10:
        stats["all_ten_groups"] = 1
    n_dis = sum(1 for _, m in world.all_models(scn) if not m.get("enabled", True))
    digest_parts = []
    if variant == "calibration":
        return _execute_calibration(scn, forced, stats, groups_present, n_dis)
    if variant == "exposure":
        a = expo.run_exposure(scn, builder="python", debug=scn["debug"])
        exp = expo.expected_events(scn)
        fault = scn.get("fault")
        if fault:
            # expected prefix: everything before the failing call, plus the failing call itself
            cut = None
            for k, (s, n, _a) in enumerate(exp):
                if s == fault["step"] and n == fault["tag"]:
                    cut = k + 1
                    break
            exp_a = exp[:cut] if cut is not None else exp
            stats["fault_prefix_checked"] = 1
            if cut is not None and a["exc"] is None:
                viol.append({"clause": "C01.fault-prefix", "signature": "C01.fault-prefix@no-exception", "detail": "injected model failure did not surface"})
        else:
            exp_a = exp
            if a["exc"] is not None:
                viol.append({"clause": "C01.runs", "signature": f"C01.runs@exposure-raises:{type(a['exc']).__name__}", "detail": {"exc": repr(a["exc"])[:300], "tb": a.get("tb", "")[-800:]}})
        msg = expo.compare_events(expo.events_of(a["hist"]), exp_a)
        if msg and not any(v["clause"] == "C01.runs" for v in viol):
            viol.append({"clause": "C01.order-once", "signature": f"C01.order-once@exposure+debug={scn['debug']}", "detail": msg})
        if scn["debug"]:
            stats["debug_runs"] = 1
        # YAML twin with shuffled keys and the other debug setting
        b = expo.run_exposure(scn, builder="yaml", yaml_rng=random.Random(scn["yaml_seed"]), debug=not scn["debug"])
        stats["yaml_twin"] = 1
        if not scn["debug"]:
            stats["debug_runs"] = 1
        msg2 = expo.compare_events(expo.events_of(b["hist"]), exp_a)
        if msg2 and not (b["exc"] is not None and not fault):
            viol.append({"clause": "C01.yaml-twin", "signature": f"C01.yaml-twin@exposure+debug={not scn['debug']}", "detail": msg2})
        elif b["exc"] is not None and not fault:
            viol.append({"clause": "C01.yaml-twin", "signature": f"C01.yaml-twin@raises:{type(b['exc']).__name__}", "detail": {"exc": repr(b["exc"])[:300], "tb": b.get("tb", "")[-800:]}})
        digest_parts = [obs.hist_digest(a["hist"]), obs.hist_digest(b["hist"])]
        if scn.get("reconf") and not fault and a.get("objects") and not viol:
            stats["reconfigured_rerun"] = 1
            s2 = _reconfigure(scn, a["objects"])
            from .. import probes

            probes.HIST.clear()
            c = expo.run_exposure(s2, objects=a["objects"], debug=scn["debug"], reset=False)
            msg3 = expo.compare_events(expo.events_of(c["hist"]), expo.expected_events(s2)) if c["exc"] is None else f"raised {c['exc']!r}"
            if msg3:
                hows = "+".join(sorted({r["how"] for r in scn["reconf"]}))
                viol.append({"clause": "C01.reconfigured", "signature": f"C01.reconfigured@exposure+{hows}", "detail": msg3})
            digest_parts.append(obs.hist_digest(c["hist"]))
        sim_time = float(sum(scn["readout"]["times"][-1:]) - scn["readout"].get("start_time", 0.0)) * 2
    else:
        with_dask = variant == "obs-par"
        builder = "yaml" if scn["yaml_seed"] % 2 else "python"
        if builder == "yaml":
            stats["yaml_twin"] = 1
        rec = obs.run_observation(scn, with_dask=with_dask, builder=builder, yaml_rng=random.Random(scn["yaml_seed"]), forced=forced, warmup=bool(scn.get("warmup")))
        if scn.get("warmup"):
            stats["warmup_then_observation"] = 1
        om = scn["mode"]["obs_mode"]
        if rec["exc"] is not None:
            known_seq_vec = om == "sequential" and "dim_0" in repr(rec["exc"])
            if not known_seq_vec:
                viol.append({"clause": "C01.runs", "signature": f"C01.runs@{variant}+{om}-raises:{type(rec['exc']).__name__}", "detail": {"exc": repr(rec["exc"])[:300], "tb": rec.get("tb", "")[-800:]}})
            else:
                stats["seq_vec_alignment_error(C05)"] = 1
        else:
            combos, _ = obs.expected_space(scn)
            remaining = [expo.expected_events(scn, overrides=c) for c in combos]
            extra_allowed = 1 if with_dask else 0
            all_expected = list(remaining)
            runs = {}
            for ev in rec["hist"]:
                runs.setdefault(ev["run"], []).append(ev)
            for rid in sorted(runs):
                got = expo.events_of(runs[rid])
                for k, exp in enumerate(remaining):
                    if expo.compare_events(got, exp) is None:
                        del remaining[k]
                        break
                else:
                    if extra_allowed and any(expo.compare_events(got, e) is None for e in all_expected):
                        # shape-discovery execution of one (already counted) combination
                        extra_allowed -= 1
                        continue
                    why = expo.compare_events(got, expo.expected_events(scn, overrides=combos[0])) if combos else "no combos"
                    viol.append({"clause": "C01.order-once", "signature": f"C01.order-once@{variant}+{om}", "detail": {"run": rid, "no_expected_run_matches": why}})
                    break
            else:
                if remaining:
                    viol.append({"clause": "C01.order-once", "signature": f"C01.missing-runs@{variant}+{om}", "detail": f"{len(remaining)} expected runs never executed"})
        digest_parts = [obs.hist_digest(rec["hist"]), (rec.get("sim") or {}).get("digest", "")]
        sim_time = float((rec.get("sim") or {}).get("now") or 0.0)
        if (rec.get("sim") or {}).get("contested"):
            stats["contested_runs"] = 1
    key = hashlib.sha256(f"{_sig_order(scn)}|{variant}|{len(scn['readout']['times'])}|{scn.get('fault')}".encode()).hexdigest()[:16]
    return {
        "violations": viol,
        "stats": stats,
        "nontrivial": len([g for g in groups_present if any(m.get('enabled', True) for m in scn['pipeline'][g])]) >= 2 and (n_dis > 0 or len(groups_present) < 10),
        "key": key,
        "digest": ":".join(digest_parts),
        "sim_time": sim_time,
        "decisions": [],
        "sample": {"variant": variant, "order": _sig_order(scn), "steps": len(scn["readout"]["times"]), "fault": scn.get("fault"), "debug": scn["debug"]},
    }
