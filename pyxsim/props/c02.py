"""C02 — readout clock and per-step bucket lifecycle (destructive / non-destructive)."""

from __future__ import annotations

import copy
import hashlib
import os
import traceback

import numpy as np

from .. import probes, ref, world

ID = "C02"
LEVEL = "exploration"
FORCED_OK = False
TECHNIQUE = "deterministic simulation of the detector's own (virtual) readout clock: observer probes inside the pipeline record clock and bucket state at the start and end of every step over histories of successive runs on one reused detector, with polluted prior contents and invalid schedules as injected faults; compared with an independent reference clock"
LEVEL_TEXT = "seeded exploration of operation histories (run / pollute / run with invalid schedule) x schedule sources (list, scalar, numpy expression, file) x destructive/non-destructive x start times; oracles evaluated inside the run and over the recorded history"
LEVEL_NOTE = "trusted: reference clock arithmetic in pyxsim/ref.py; only unambiguously invalid schedules are generated (no NaN, no zero later than first)"
RULE = (
    "history of 2..6 operations on ONE detector/pipeline pair: run(schedule source, start, destructive?), pollute(buckets), run_invalid(kind, via constructor or attribute); "
    "distinct = distinct (op kinds, schedule lengths, modes); non-trivial = at least one multi-step non-destructive run or a run after pollution or an invalid schedule"
)
ASSUMPTIONS = [
    "float equality is demanded for time, time_step (t_i - t_(i-1)) and absolute_time (start + t_i): the reference performs the same IEEE operations",
    "'empty' for charge means an all-zero array and an empty cluster table (the container has no None state)",
    "schedule files are written through numpy/text into a per-scenario scratch directory (real filesystem)",
]
COMPONENTS = {"real": ["pyxel exposure/readout/detector/containers", "filesystem (scratch dir)"], "stub": []}
BUDGET = {"quick": {"n": 640, "wall": 100, "determinism": 4}, "thorough": {"n": 80000, "wall": 1500, "determinism": 12}}
REQUIRED_REACH = ["charge_array_handed_over", "clusters_written", "op:run", "op:pollute", "op:run_invalid", "nondestructive_multistep", "run_after_pollute", "times:file", "times:expr", "times:scalar", "invalid:setter"]

INVALID = ["non_increasing", "duplicate", "first_zero", "start_eq_first", "start_gt_first", "empty", "2d", "decreasing"]
EXPRS = [("numpy.linspace(1, 5, 3)", [1.0, 3.0, 5.0]), ("numpy.arange(2, 8, 2)", [2, 4, 6]), ("numpy.logspace(0, 2, 3)", [1.0, 10.0, 100.0]), ("numpy.array([0.5, 0.75, 4])", [0.5, 0.75, 4.0])]


def gen_run(rng):
    kind = rng.choice(["list", "list", "scalar", "expr", "file"])
    start = rng.choice([0.0, 0.0, 0.25, -2.0, 0.4])
    if kind == "scalar":
        times = [rng.choice([1.0, 2.5, 7])]
        spec = times[0]
    elif kind == "expr":
        spec, times = rng.choice(EXPRS)
        times = list(times)
    else:
        n = rng.randint(1, 8)
        t, times = max(start, 0.0), []
        for _ in range(n):
            t += rng.choice([0.125, 0.5, 1.0, 2.0, 10.0])
            times.append(t)
        spec = list(times)
    if start >= times[0]:
        start = 0.0 if times[0] > 0 else times[0] - 1.0
    return {"op": "run", "kind": kind, "spec": spec, "times": [float(t) for t in times], "start": start, "nd": rng.random() < 0.5, "fmt": rng.choice(["npy", "txt"])}


def gen_invalid(rng):
    k = rng.choice(INVALID)
    via = rng.choice(["ctor", "ctor", "setter"])
    start = 0.0
    if k == "non_increasing":
        times = [1.0, 3.0, 2.0]
    elif k == "duplicate":
        times = [1.0, 2.0, 2.0]
    elif k == "first_zero":
        times = [0.0, 1.0, 2.0]
    elif k == "start_eq_first":
        times, start = [1.0, 2.0], 1.0
    elif k == "start_gt_first":
        times, start = [1.0, 2.0], 1.5
    elif k == "empty":
        times = []
    elif k == "2d":
        times = [[1.0, 2.0], [3.0, 4.0]]
    else:
        times = [5.0, 4.0, 3.0]
    return {"op": "run_invalid", "invalid": k, "via": via, "times": times, "start": start, "nd": rng.random() < 0.5}


def generate(rng, tier):
    scn = {
        "detector": world.gen_detector(rng),
        "pipeline": world.gen_pipeline(rng, max_per_group=2, group_p=0.4, free_args=0, p_disabled=0.1),
        "ops": [],
    }
    if not any(m.get("enabled", True) for _, m in world.all_models(scn)):
        world.all_models(scn)[0][1]["enabled"] = True
    for _, m in world.all_models(scn):
        m["arguments"].pop("image_dtype", None)
        w = m["arguments"].get("write") or []
        if rng.random() < 0.2:
            w.append("clusters")  # charge added as positioned particles (data-frame representation)
        if "photon" in w and rng.random() < 0.3:
            w[w.index("photon")] = "photon+"
        m["arguments"]["write"] = w
    if rng.random() < 0.3:
        # last model of every step: the charge array handed over to the pixel container by assignment (one shared array object)
        scn["pipeline"].setdefault("data_processing", []).append({"name": "hand", "func": world.PROBE, "enabled": True, "arguments": {"tag": "hand", "level": 1, "write": ["pixel=charge"]}})
    n = rng.randint(2, 6)
    for _ in range(n):
        r = rng.random()
        if r < 0.55:
            scn["ops"].append(gen_run(rng))
        elif r < 0.75:
            scn["ops"].append({"op": "pollute", "buckets": [b for b in ["photon", "pixel", "signal", "image", "charge", "scene", "clusters"] if rng.random() < 0.5] or ["pixel"]})
        else:
            scn["ops"].append(gen_invalid(rng))
    if not any(o["op"] == "run" for o in scn["ops"]):
        scn["ops"].append(gen_run(rng))
    return scn


def shrink(scn):
    for i in range(len(scn["ops"])):
        c = copy.deepcopy(scn)
        del c["ops"][i]
        if c["ops"]:
            yield c
    for i, o in enumerate(scn["ops"]):
        if o["op"] == "run" and o["kind"] in ("list", "file") and len(o["times"]) > 1:
            c = copy.deepcopy(scn)
            c["ops"][i]["times"] = o["times"][:-1]
            c["ops"][i]["spec"] = list(c["ops"][i]["times"])
            yield c
    for g, ms in scn["pipeline"].items():
        for i in range(len(ms or [])):
            c = copy.deepcopy(scn)
            del c["pipeline"][g][i]
            if not c["pipeline"][g]:
                del c["pipeline"][g]
            if any(m.get("enabled", True) for _, m in world.all_models(c)):
                yield c


def _pollute(det, buckets, rows, cols):
    import xarray as xr

    base = np.arange(rows * cols, dtype=float).reshape(rows, cols) + 3.0
    for b in buckets:
        if b == "photon":
            det.photon.array = base * 2
        elif b == "pixel":
            det.pixel.array = base * 5
        elif b == "signal":
            det.signal.array = base * 0.1
        elif b == "image":
            det.image.array = (base * 3).astype(np.uint16)
        elif b == "charge":
            det.charge.add_charge_array(base)
        elif b == "clusters":
            n = 2
            det.charge.add_charge(
                particle_type="e", particles_per_cluster=np.array([10.0, 20.0]), init_energy=np.zeros(n),
                init_ver_position=np.array([0.5, 0.5]) * det.geometry.pixel_vert_size, init_hor_position=np.array([0.5, 1.5]) * det.geometry.pixel_horz_size,
                init_z_position=np.zeros(n), init_ver_velocity=np.zeros(n), init_hor_velocity=np.zeros(n), init_z_velocity=np.zeros(n),
            )
        elif b == "scene":
            src = xr.Dataset(
                {"x": ("ref", [1.0]), "y": ("ref", [2.0]), "weight": ("ref", [1.0]), "flux": (("ref", "wavelength"), [[1.0, 2.0]])},
                coords={"ref": [0], "wavelength": [400.0, 500.0]},
            )
            det.scene.add_source(src)


def _build_readout(op, scratch):
    from pyxel.exposure import Readout

    if op["kind"] == "file":
        path = os.path.join(scratch, f"times_{abs(hash(tuple(op['times']))) % 10**8}.{op['fmt']}")
        if op["fmt"] == "npy":
            np.save(path, np.array(op["times"], dtype=float))
        else:
            np.savetxt(path, np.array(op["times"], dtype=float))
        return Readout(times_from_file=path, start_time=op["start"], non_destructive=op["nd"])
    return Readout(times=op["spec"], start_time=op["start"], non_destructive=op["nd"])


def execute(scn):
    import pyxel
    from pyxel.exposure import Exposure, Readout

    world.reset_process_state()
    viol, stats = [], {}
    det = world.build_detector(scn["detector"])
    pipe = world.build_pipeline(scn["pipeline"])
    rows, cols = scn["detector"]["row"], scn["detector"]["col"]
    n_enabled = len(ref.enabled_models(scn["pipeline"]))
    if any("clusters" in (m["arguments"].get("write") or []) for _, m in ref.enabled_models(scn["pipeline"])):
        stats["clusters_written"] = 1
    if any("pixel=charge" in (m["arguments"].get("write") or []) for _, m in world.all_models(scn) if m.get("enabled", True)):
        stats["charge_array_handed_over"] = 1
    polluted = False
    sim_time = 0.0
    h = hashlib.sha256()
    with world.Scratch() as scratch:
        for k, op in enumerate(scn["ops"]):
            stats["op:" + op["op"]] = stats.get("op:" + op["op"], 0) + 1
            start = len(probes.HIST)
            if op["op"] == "pollute":
                try:
                    _pollute(det, op["buckets"], rows, cols)
                    polluted = True
                except Exception as exc:  # pollution itself must be legal
                    viol.append({"clause": "C02.harness", "signature": "C02.harness@pollute", "detail": repr(exc)})
                continue
            if op["op"] == "run_invalid":
                stats["invalid:" + op["invalid"]] = 1
                stats["invalid:" + op["via"]] = 1
                raised = None
                try:
                    if op["via"] == "ctor":
                        ro = Readout(times=op["times"], start_time=op["start"], non_destructive=op["nd"])
                    else:
                        ro = Readout(times=[10.0, 20.0], start_time=0.0, non_destructive=op["nd"])
                        if op["invalid"] in ("start_eq_first", "start_gt_first"):
                            ro.times = op["times"]
                            ro.start_time = op["start"]
                        else:
                            ro.times = op["times"]
                    pyxel.run_mode(mode=Exposure(readout=ro), detector=det, pipeline=pipe, with_inherited_coords=True)
                except Exception as exc:
                    raised = exc
                ran = len(probes.HIST) - start
                if raised is None:
                    viol.append({"clause": "C02.invalid-rejected", "signature": f"C02.invalid-rejected@{op['invalid']}+{op['via']}", "detail": f"schedule {op['times']} start {op['start']} accepted; {ran} model executions"})
                elif ran:
                    viol.append({"clause": "C02.invalid-rejected", "signature": f"C02.invalid-before-models@{op['invalid']}+{op['via']}", "detail": f"{ran} model executions before {raised!r}"})
                h.update(f"inv:{type(raised).__name__}:{ran}".encode())
                continue
            # valid run
            stats["times:" + op["kind"]] = 1
            if polluted:
                stats["run_after_pollute"] = 1
            if op["nd"] and len(op["times"]) > 1:
                stats["nondestructive_multistep"] = 1
            try:
                ro = _build_readout(op, scratch)
                pyxel.run_mode(mode=Exposure(readout=ro), detector=det, pipeline=pipe, with_inherited_coords=True)
            except Exception as exc:
                viol.append({"clause": "C02.runs", "signature": f"C02.runs@valid-schedule-raises:{type(exc).__name__}+{op['kind']}", "detail": {"exc": repr(exc)[:300], "tb": traceback.format_exc(limit=4)[-700:], "op": op}})
                polluted = False
                continue
            hist = probes.HIST[start:]
            times, st = op["times"], op["start"]
            sim_time += times[-1] - st
            steps_seen = []
            for ev in hist:
                if not steps_seen or steps_seen[-1] != ev["step"]:
                    steps_seen.append(ev["step"])
            if steps_seen != list(range(len(times))) or len(hist) != n_enabled * len(times):
                viol.append({"clause": "C02.once-per-time", "signature": f"C02.once-per-time@{op['kind']}", "detail": f"steps seen {steps_seen}, executions {len(hist)}; expected {len(times)} steps x {n_enabled} models"})
                polluted = False
                continue
            prev_last = None
            for i in range(len(times)):
                evs = [e for e in hist if e["step"] == i]
                first, last = evs[0], evs[-1]
                exp = ref.clock_for(times, st, i)
                for ev in evs:
                    bad = {k2: (ev["clock"][k2], exp[k2]) for k2 in exp if ev["clock"][k2] != exp[k2]}
                    if bad:
                        viol.append({"clause": "C02.clock", "signature": "C02.clock@" + "+".join(sorted(bad)), "detail": {"step": i, "observed_vs_expected": bad, "times": times, "start": st}})
                        break
                b = first["before"]
                feat = ("after-pollute" if polluted else "clean") + ("+nd" if op["nd"] else "+destructive") + ("+step0" if i == 0 else "+later-step")
                for name in ("photon", "signal", "image"):
                    if b[name] is not None:
                        viol.append({"clause": "C02.empty-at-start", "signature": f"C02.empty-at-start@{name}+{feat}", "detail": {"step": i, "bucket": name}})
                if b["charge"] is None or np.any(b["charge"] != 0) or b.get("charge_frame_len", 0) != 0:
                    viol.append({"clause": "C02.empty-at-start", "signature": f"C02.empty-at-start@charge+{feat}", "detail": {"step": i}})
                if b.get("scene_empty") is not True:
                    viol.append({"clause": "C02.empty-at-start", "signature": f"C02.empty-at-start@scene+{feat}", "detail": {"step": i}})
                if i == 0 or not op["nd"]:
                    if b["pixel"] is None or np.any(b["pixel"] != 0):
                        viol.append({"clause": "C02.pixel-lifecycle", "signature": f"C02.pixel-zero@{feat}", "detail": {"step": i, "pixel": None if b["pixel"] is None else b["pixel"].tolist()}})
                else:
                    want = prev_last["after"]["pixel"]
                    if b["pixel"] is None or want is None or not np.array_equal(b["pixel"], want):
                        viol.append({"clause": "C02.pixel-lifecycle", "signature": f"C02.pixel-carried@{feat}", "detail": {"step": i}})
                prev_last = last
                h.update(repr((i, first["clock"]["time"], first["clock"]["time_step"])).encode())
                if viol:
                    break
            polluted = False
    kinds = tuple((o["op"], o.get("kind") or o.get("invalid"), len(o.get("times") or []), o.get("nd")) for o in scn["ops"])
    nontrivial = any((o["op"] == "run" and o["nd"] and len(o["times"]) > 1) or o["op"] != "run" for o in scn["ops"])
    # de-duplicate violations by signature
    seen, uniq = set(), []
    for v in viol:
        if v["signature"] not in seen:
            seen.add(v["signature"])
            uniq.append(v)
    return {
        "violations": uniq,
        "stats": stats,
        "nontrivial": nontrivial,
        "key": hashlib.sha256(repr(kinds).encode()).hexdigest()[:16],
        "digest": h.hexdigest()[:16] + ":" + hashlib.sha256(repr([(e["run"], e["name"], e["step"], e.get("v")) for e in probes.HIST]).encode()).hexdigest()[:12],
        "sim_time": sim_time,
        "decisions": [],
        "sample": {"ops": [{k2: v2 for k2, v2 in o.items() if k2 in ("op", "kind", "spec", "start", "nd", "invalid", "via", "buckets")} for o in scn["ops"]]},
    }
