"""C03 — the returned result is a faithful, complete record of every step."""

from __future__ import annotations

import copy
import hashlib

import numpy as np

from .. import expo, obs, probes, ref, world

ID = "C03"
LEVEL = "exploration"
FORCED_OK = False
TECHNIQUE = "deterministic simulation of exposures over the detector's virtual readout clock: observer probes snapshot every bucket at the end of each step inside the run; the returned DataTree (flat and hierarchical layout, debug on/off) is checked slice by slice against that recorded history"
LEVEL_TEXT = "seeded exploration of writer pipelines x schedules x dtypes (image uint8..uint64, float16..64) x 2-D / multi-wavelength photon x both layouts x debug; oracle over recorded history versus reported result. The schedule dimension adds nothing here beyond C07 (stated limit)."
LEVEL_NOTE = "trusted: the probe's public-API snapshots; writers write a bucket in every step or never (the statement is silent on partially written buckets); debug clause only constrained where 'changed' is unambiguous (see DESIGN.md C03)"
RULE = (
    "generated writer pipeline (any subset of photon/photon3d/charge/pixel/signal/image/scene/data per model, dtypes drawn), 1..5 readouts, start time, destructive or not; "
    "run hierarchical (debug drawn) and flat; distinct = distinct (written-bucket set, dtypes, #steps, debug); non-trivial = >=2 readouts and >=2 written buckets"
)
ASSUMPTIONS = [
    "bucket equality is bit-exact; time labels must equal start + t_i computed with the same IEEE addition",
    "debug 'changed' is demanded only when the model's before/after and the previous model's after agree that the bucket changed (not allclose) and forbidden only when both agree it is bit-identical",
    "scene is compared with DataTree.equals on the last step's scene; processed data with DataTree.equals on the detector's data tree after the last step",
]
COMPONENTS = {"real": ["pyxel exposure/run_pipeline/containers/ModelGroup debug capture", "xarray"], "stub": []}
BUDGET = {"quick": {"n": 480, "wall": 100, "determinism": 4}, "thorough": {"n": 24000, "wall": 1500, "determinism": 12}}
REQUIRED_REACH = ["photon3d_with_foreign_coordinates", "rerun_with_other_start_time", "clusters_edited_in_place", "inplace_photon_add", "clusters_written", "debug_runs", "photon3d_runs", "flat_layout_compared", "scene_runs", "data_runs", "image_dtype:uint8", "image_dtype:uint64", "float_dtype:float16", "multi_step"]

IMG = ("uint8", "uint16", "uint32", "uint64")
FLT = ("float16", "float32", "float64")


def generate(rng, tier):
    scn = {
        "detector": world.gen_detector(rng),
        "pipeline": world.gen_pipeline(rng, max_per_group=2, group_p=0.45, free_args=0, p_disabled=0.15, photon3d=True, image_dtypes=IMG, float_dtypes=FLT),
        "readout": world.gen_times(rng, nmax=5),
        "mode": {"kind": "exposure"},
        "debug": rng.random() < 0.5,
    }
    en = [m for _, m in world.all_models(scn) if m.get("enabled", True)]
    if not en:
        m = world.all_models(scn)[0][1]
        m["enabled"] = True
        en = [m]
    # one dtype per bucket across the pipeline (a bucket keeps one dtype within a run)
    idt, fdt = rng.choice(IMG), rng.choice(FLT)
    p3 = rng.random() < 0.3
    for m in en:
        a = m["arguments"]
        w = a.get("write") or []
        w = ["photon3d" if (b in ("photon", "photon3d") and p3) else ("photon" if b == "photon3d" else b) for b in w]
        w = [(b + "+") if (b in ("photon", "photon3d") and rng.random() < 0.4) else b for b in w]
        if rng.random() < 0.15:
            w.append("clusters")
        if rng.random() < 0.12:
            w.append("clusters*2")  # edits the clusters present at that moment in place
        if rng.random() < 0.15:
            w.append("scene")
        if rng.random() < 0.2:
            w.append("data")
        a["write"] = w
        if "photon3d" in w and rng.random() < 0.4:
            a["foreign_coords"] = True  # the cube carries row / column labels of its own
        a["image_dtype"] = idt
        a["float_dtype"] = fdt
        a["snap_trees"] = True
    if not any(m["arguments"]["write"] for m in en):
        en[-1]["arguments"]["write"] = ["pixel", "image"]
    # history: the same objects are run a second time with another start time (same readout times)
    t0, st = scn["readout"]["times"][0], scn["readout"].get("start_time", 0.0)
    scn["rerun_start"] = round(st + (t0 - st) * rng.choice([0.25, 0.5]), 6) if rng.random() < 0.4 else None
    return scn


def shrink(scn):
    for g, ms in scn["pipeline"].items():
        for i in range(len(ms or [])):
            c = copy.deepcopy(scn)
            del c["pipeline"][g][i]
            if not c["pipeline"][g]:
                del c["pipeline"][g]
            if any(m.get("enabled", True) for _, m in world.all_models(c)):
                yield c
    if len(scn["readout"]["times"]) > 1:
        c = copy.deepcopy(scn)
        c["readout"]["times"] = c["readout"]["times"][:-1]
        yield c
    for _, m in world.all_models(scn):
        for b in list(m["arguments"].get("write") or []):
            c = copy.deepcopy(scn)
            for _, m2 in world.all_models(c):
                if m2["name"] == m["name"]:
                    m2["arguments"]["write"].remove(b)
            yield c


def _written(scn):
    out = set()
    for _, m in ref.enabled_models(scn["pipeline"]):
        out.update(m["arguments"].get("write") or [])
    return out


def _allclose(a, b):
    if a is None or b is None:
        return a is None and b is None
    a, b = np.asarray(a, dtype=float), np.asarray(b, dtype=float)
    return a.shape == b.shape and bool(np.allclose(a, b))


def _ident(a, b):
    if a is None or b is None:
        return a is None and b is None
    return a.shape == b.shape and a.dtype == b.dtype and bool(np.array_equal(a, b))


def _tree_equal(a, b) -> bool:
    """Same relative node paths and per-node datasets equal, ignoring coordinates inherited from outside."""
    if a is None or b is None:
        return False
    pa = {n.relative_to(a) if n is not a else ".": n for n in a.subtree}
    pb = {n.relative_to(b) if n is not b else ".": n for n in b.subtree}
    if set(pa) != set(pb):
        return False
    for k in pa:
        if not pa[k].to_dataset(inherit=False).equals(pb[k].to_dataset(inherit=False)):
            return False
    return True


def _check_tree(scn, rec, layout, viol, stats):
    tree = rec["tree"]
    hist = rec["hist"]
    rows, cols = scn["detector"]["row"], scn["detector"]["col"]
    times, start = scn["readout"]["times"], scn["readout"].get("start_time", 0.0)
    last = expo.last_after_per_step(hist)
    written = _written(scn)
    bk = tree["/bucket"] if "bucket" in tree.children else tree
    ds = bk.to_dataset()
    exp_time = [float(start) + float(t) for t in times]
    for b in ("photon", "charge", "pixel", "signal", "image"):
        init = (b in written) or (b == "photon" and written & {"photon3d", "photon+", "photon3d+"}) or (b == "charge" and "clusters" in written)
        if not init:
            continue
        if b not in ds.data_vars:
            viol.append({"clause": "C03.complete", "signature": f"C03.complete@{b}-missing+{layout}", "detail": f"bucket {b} was written by a model but is absent from the result"})
            continue
        da = ds[b]
        if "time" not in da.dims or da.sizes["time"] != len(times):
            viol.append({"clause": "C03.complete", "signature": f"C03.slices@{b}+{layout}", "detail": f"dims {dict(da.sizes)}; expected one slice per {len(times)} readouts"})
            continue
        tv = [float(x) for x in da["time"].values]
        if tv != exp_time:
            viol.append({"clause": "C03.labels", "signature": f"C03.time-labels@{layout}", "detail": {"got": tv, "expected": exp_time}})
        if list(da["y"].values) != list(range(rows)) or list(da["x"].values) != list(range(cols)):
            viol.append({"clause": "C03.labels", "signature": f"C03.yx-labels@{layout}", "detail": {"y": list(map(int, da["y"].values)), "x": list(map(int, da["x"].values))}})
        for i in range(len(times)):
            want = last[i]["after"][b]
            got = np.asarray(da.isel(time=i).values)
            if want is None:
                viol.append({"clause": "C03.harness", "signature": "C03.harness@snapshot-none", "detail": b})
                break
            if got.shape != want.shape or not np.array_equal(got.astype(float), want.astype(float)):
                viol.append({"clause": "C03.values", "signature": f"C03.values@{b}+{layout}" + ("+multistep" if len(times) > 1 else ""), "detail": {"step": i, "got": got.ravel()[:4].tolist(), "want": want.ravel()[:4].tolist(), "steps": len(times)}})
                break
        if b == "image":
            want_dt = last[len(times) - 1]["after"]["image"].dtype
            if da.dtype != want_dt:
                viol.append({"clause": "C03.image-dtype", "signature": f"C03.image-dtype@{layout}" + ("+multistep" if len(times) > 1 else ""), "detail": f"result dtype {da.dtype}, detector held {want_dt}"})
    # scene and processed data are returned unchanged
    final = last[len(times) - 1].get("trees") or {}
    if "scene" in written:
        stats["scene_runs"] = 1
        sc = tree["/scene"] if "scene" in tree.children else None
        if not _tree_equal(sc, final.get("scene")):
            viol.append({"clause": "C03.scene", "signature": f"C03.scene@{layout}", "detail": "scene tree in the result differs from the detector's scene after the last step"})
    if "data" in written:
        stats["data_runs"] = 1
        dd = tree["/data"] if "data" in tree.children else None
        if not _tree_equal(dd, final.get("data")):
            viol.append({"clause": "C03.data", "signature": f"C03.data@{layout}", "detail": "processed-data tree in the result differs from the detector's data after the last step"})
    return ds


def _check_debug(scn, rec, viol):
    tree, hist = rec["tree"], rec["hist"]
    if "intermediate" not in tree.children:
        viol.append({"clause": "C03.debug", "signature": "C03.debug@no-intermediate", "detail": "debug=True but no /intermediate node"})
        return
    inter = tree["/intermediate"]
    group_of = {m["name"]: g for g, m in ref.enabled_models(scn["pipeline"])}
    prev_after = None
    for ev in hist:
        path = f"time_idx_{ev['step']}/{group_of[ev['name']]}/{ev['name']}"
        try:
            node = inter[path]
            recorded = set(node.data_vars) if hasattr(node, "data_vars") else set()
        except KeyError:
            node, recorded = None, set()
        for b in ("photon", "pixel", "signal", "image", "charge"):
            bef, aft = ev["before"][b], ev["after"][b]
            pa = prev_after[b] if prev_after is not None else None
            if b == "charge" and aft is not None and not np.any(aft):
                continue  # all-zero charge is never exported by the detector's dataset view
            changed_own = not _allclose(bef, aft)
            changed_prev = (not _allclose(pa, aft)) if prev_after is not None else (aft is not None and bool(np.any(np.asarray(aft, dtype=float) != 0)) and not _allclose(np.zeros_like(np.asarray(aft, dtype=float)), aft))
            same_own = _ident(bef, aft)
            same_prev = _ident(pa, aft) if prev_after is not None else (aft is None)
            if changed_own and changed_prev:
                if b not in recorded:
                    viol.append({"clause": "C03.debug", "signature": f"C03.debug-missing@{b}", "detail": {"model": ev["name"], "step": ev["step"], "recorded": sorted(recorded)}})
                    return
                got = np.asarray(node[b].values)
                if got.shape != aft.shape or not np.array_equal(got.astype(float), aft.astype(float)):
                    viol.append({"clause": "C03.debug", "signature": f"C03.debug-value@{b}", "detail": {"model": ev["name"], "step": ev["step"]}})
                    return
            elif same_own and same_prev and b in recorded:
                viol.append({"clause": "C03.debug", "signature": f"C03.debug-spurious@{b}", "detail": {"model": ev["name"], "step": ev["step"]}})
                return
        prev_after = ev["after"]


def execute(scn):
    probes.TRUTH_FROM_FRAME = True
    try:
        return _execute(scn)
    finally:
        probes.TRUTH_FROM_FRAME = False


def _execute(scn):
    viol, stats = [], {}
    times = scn["readout"]["times"]
    written = _written(scn)
    a = expo.run_exposure(scn, debug=scn["debug"], inherited=True)
    if a["exc"] is not None:
        viol.append({"clause": "C03.returns", "signature": f"C03.returns@raises:{type(a['exc']).__name__}" + ("+multistep" if len(times) > 1 else ""), "detail": {"exc": repr(a["exc"])[:300], "tb": a.get("tb", "")[-800:]}})
        dsa = None
    else:
        dsa = _check_tree(scn, a, "hier", viol, stats)
        if scn["debug"]:
            stats["debug_runs"] = 1
            _check_debug(scn, a, viol)
    if scn.get("rerun_start") is not None and a["exc"] is None and a.get("objects"):
        stats["rerun_with_other_start_time"] = 1
        s2 = copy.deepcopy(scn)
        s2["readout"]["start_time"] = scn["rerun_start"]
        mode = a["objects"][0]
        mode.readout.start_time = scn["rerun_start"]
        probes.HIST.clear()
        c = expo.run_exposure(s2, objects=a["objects"], debug=False, inherited=True, reset=False)
        if c["exc"] is not None:
            viol.append({"clause": "C03.returns", "signature": f"C03.returns@second-run-raises:{type(c['exc']).__name__}", "detail": {"exc": repr(c["exc"])[:300], "tb": c.get("tb", "")[-800:]}})
        else:
            _check_tree(s2, c, "hier+second-run", viol, stats)
    b = expo.run_exposure(scn, debug=False, inherited=False)
    if b["exc"] is not None:
        viol.append({"clause": "C03.returns", "signature": f"C03.returns@flat-raises:{type(b['exc']).__name__}", "detail": {"exc": repr(b["exc"])[:300], "tb": b.get("tb", "")[-800:]}})
    elif dsa is not None:
        dsb = _check_tree(scn, b, "flat", viol, stats)
        stats["flat_layout_compared"] = 1
        for name in dsa.data_vars:
            if name in dsb.data_vars:
                x, y = np.asarray(dsa[name].values), np.asarray(dsb[name].values)
                if x.shape != y.shape or not np.array_equal(x.astype(float), y.astype(float), equal_nan=True):
                    viol.append({"clause": "C03.layouts", "signature": f"C03.layouts@{name}", "detail": "flat and hierarchical layouts (and debug on/off) carry different values"})
            elif name in ("photon", "pixel", "signal", "image", "charge"):
                viol.append({"clause": "C03.layouts", "signature": f"C03.layouts-missing@{name}", "detail": "bucket present in hierarchical layout only"})
    if written & {"photon3d", "photon3d+"}:
        stats["photon3d_runs"] = 1
    if written & {"photon+", "photon3d+"}:
        stats["inplace_photon_add"] = 1
    if "clusters" in written:
        stats["clusters_written"] = 1
    if any(m["arguments"].get("foreign_coords") for _, m in ref.enabled_models(scn["pipeline"])):
        stats["photon3d_with_foreign_coordinates"] = 1
    if "clusters*2" in written and "clusters" in written:
        stats["clusters_edited_in_place"] = 1
    if len(times) > 1:
        stats["multi_step"] = 1
    idt = next((m["arguments"]["image_dtype"] for _, m in ref.enabled_models(scn["pipeline"])), "uint16")
    fdt = next((m["arguments"]["float_dtype"] for _, m in ref.enabled_models(scn["pipeline"])), "float64")
    if "image" in written:
        stats["image_dtype:" + idt] = 1
    stats["float_dtype:" + fdt] = 1
    seen, uniq = set(), []
    for v in viol:
        if v["signature"] not in seen:
            seen.add(v["signature"])
            uniq.append(v)
    key = hashlib.sha256(repr((sorted(written), idt, fdt, len(times), scn["debug"], scn["readout"]["non_destructive"])).encode()).hexdigest()[:16]
    return {
        "violations": uniq,
        "stats": stats,
        "nontrivial": len(times) >= 2 and len(written) >= 2,
        "key": key,
        "digest": obs.hist_digest(a["hist"]) + ":" + obs.tree_digest(a["tree"]) + ":" + obs.tree_digest(b["tree"]),
        "sim_time": float(times[-1] - scn["readout"].get("start_time", 0.0)) * 2,
        "decisions": [],
        "sample": {"written": sorted(written), "image_dtype": idt, "float_dtype": fdt, "steps": len(times), "debug": scn["debug"], "non_destructive": scn["readout"]["non_destructive"]},
    }
