"""C04 — seeded runs are bit-reproducible and seeding never leaks."""

from __future__ import annotations

import copy
import hashlib
import importlib
import inspect
import os
import random
import traceback

import numpy as np

from .. import engine, expo, obs, probes, ref, sched, seams, world

ID = "C04"
LEVEL = "exploration"
FORCED_OK = True
TECHNIQUE = "deterministic simulation over histories of the process-wide numpy generator: every subject (a stochastic model with its own seed, a seeded exposure / sequential observation / scheduler-driven parallel observation, a seeded run that fails inside the seeded section) is executed from two different prior generator states with unrelated work in between; bit-equality of results, generator state compared before/after (also after injected failure), pre-emption at the RNG seam under the seeded scheduler"
LEVEL_TEXT = "seeded exploration of histories (prior generator state, earlier runs, earlier failures) x subjects x thread interleavings at the numpy.random seam; stochastic model functions are discovered by introspection, those without an argument recipe are reported as uncovered, never as passed"
LEVEL_NOTE = "trusted: numpy.random.get_state() equality as the meaning of 'same generator state'; calibration seeding (pygmo_seed + pipeline_seed, stochastic probe) is the 'calibration' subject kind, run through the same scheduler"
RULE = (
    "subject drawn from {real stochastic model called directly with seed=, pipeline of real stochastic models + probe drawers run as exposure / sequential / parallel observation with pipeline_seed, unseeded pipeline whose stochastic models all carry their own seed, seeded run failing inside the seeded section}; "
    "two executions from different prior generator states (seed k + n draws) with another (possibly failing) run in between; distinct = distinct (subject kind, model set, path, policy, prior states); non-trivial = the two prior states differ and the subject draws at least once"
)
ASSUMPTIONS = [
    "seed 0 is a seed like any other (about one of eight seeded scenarios uses it as pipeline seed or model seed)",
    "model functions with a 'seed' parameter are discovered from pyxel.models at check time; recipes exist for the ones listed in evidence under covered_models, the rest is listed under uncovered_models",
    "an unseeded run of a pipeline whose stochastic models all carry their own seed must leave the generator untouched (this is how 'seeding never leaks' is made observable for models that seed internally)",
    "parallel path: only the thread-pool scheduler shares one generator between tasks; the process-pool stub gives every task a private generator",
]
COMPONENTS = {"real": ["pyxel.util.set_random_seed", "pyxel stochastic models", "exposure / observation paths", "dask get_async", "numpy legacy RNG"], "stub": ["thread pool", "numpy.random module functions wrapped as yield points", "pulse_processing.convert_to_phase (minutes-long physics replaced by a constant frame)"]}
BUDGET = {"quick": {"n": 320, "wall": 110, "determinism": 4}, "thorough": {"n": 20000, "wall": 1600, "determinism": 12}}
REQUIRED_REACH = ["pipeline_with_unseedable_model", "model:multiplication_register", "model:multiplication_register_cic", "model:sar_adc_with_noise", "model:cosmix", "model:nghxrg", "model:charge_deposition", "model:charge_deposition_in_mct", "model:conversion_with_qe_map", "kind:calibration", "prior_with_cached_gaussian", "kind:noseed-model", "kind:model", "kind:pipeline", "kind:own-seeds", "kind:failing", "path:exposure", "path:obs-seq", "path:obs-par", "seed_lock_contended", "state_checked_after_error", "pipeline_seed_zero:obs-par", "pipeline_seed_zero:exposure", "dark_current_spatial_noise_only"]

GROUPS = ["scene_generation", "photon_collection", "phasing", "charge_generation", "charge_collection", "charge_transfer", "charge_measurement", "signal_transfer", "readout_electronics", "data_processing"]

# argument recipes: name -> (group, detector types, kwargs (without seed), buckets needed)
RECIPES = {
    "shot_noise": ("photon_collection", ("CCD", "CMOS", "MKID", "APD"), [{"type": "poisson"}, {"type": "normal"}], ["photon"]),
    "simple_conversion": ("charge_generation", ("CCD", "CMOS", "MKID", "APD"), [{"binomial_sampling": True}, {"quantum_efficiency": 0.7, "binomial_sampling": True}], ["photon"]),
    "simple_dark_current": ("charge_generation", ("CCD", "CMOS", "MKID", "APD"), [{"dark_rate": 20.0}], []),
    "dark_current": ("charge_generation", ("CCD", "CMOS"), [{"figure_of_merit": 1.0, "band_gap": 1.2, "band_gap_room_temperature": 1.2, "spatial_noise_factor": 0.1, "temporal_noise": True}, {"figure_of_merit": 0.5, "temporal_noise": True}, {"figure_of_merit": 1.0, "spatial_noise_factor": 0.4, "temporal_noise": False}], []),
    "dark_current_rule07": ("charge_generation", ("CCD", "CMOS"), [{"cutoff_wavelength": 2.5, "spatial_noise_factor": 0.1, "temporal_noise": True}, {"cutoff_wavelength": 2.5, "spatial_noise_factor": 0.3, "temporal_noise": False}], []),
    "dark_current_saphira": ("charge_generation", ("APD",), [{}], []),
    "radiation_induced_dark_current": ("charge_generation", ("CCD", "CMOS"), [{"depletion_volume": 64.0, "annealing_time": 0.1, "displacement_dose": 50.0, "shot_noise": True}], []),
    "fixed_pattern_noise": ("charge_collection", ("CCD", "CMOS", "MKID", "APD"), [{"fixed_pattern_noise_factor": 0.02}], ["pixel"]),
    "ktc_noise": ("charge_measurement", ("CCD", "CMOS", "MKID", "APD"), [{"node_capacitance": 30e-15}], ["signal"]),
    "output_node_noise": ("charge_measurement", ("CCD", "CMOS", "MKID", "APD"), [{"std_deviation": 1e-3}], ["signal"]),
    "output_node_noise_cmos": ("charge_measurement", ("CMOS",), [{"readout_noise": 1.0, "readout_noise_std": 2.0}], ["signal"]),
    "readout_noise_saphira": ("charge_measurement", ("APD",), [{"roic_readout_noise": 0.15, "controller_noise": 0.1}], ["signal"]),
    "conversion_with_qe_map": ("charge_generation", ("CCD", "CMOS", "MKID", "APD"), [{"filename": "@qe", "binomial_sampling": True}], ["photon"]),
    "charge_deposition": ("charge_generation", ("CCD", "CMOS"), [{"flux": 100.0, "step_size": 1.0, "energy_mean": 1.0, "energy_spread": 0.1, "stopping_power_curve": "@data/protons-in-silicon_stopping-power.csv"}, {"flux": 60.0, "energy_mean": 2.0, "step_size": 2.0, "stopping_power_curve": "@data/protons-in-silicon_stopping-power.csv"}], []),
    "charge_deposition_in_mct": ("charge_generation", ("CMOS",), [{"flux": 100.0, "step_size": 1.0, "energy_mean": 1.0, "energy_spread": 0.1, "cutoff_wavelength": 2.5, "stopping_power_curve": "@data/mct-stopping-power.csv"}], []),
    "cosmix": ("charge_generation", ("CCD",), [{"simulation_mode": "cosmic_ray", "running_mode": "stepsize", "particle_type": "proton", "particles_per_second": 100.0, "spectrum_file": "@data/proton_L2_solarMax_11mm_Shielding.txt", "progressbar": False}], []),
    "nghxrg": ("charge_measurement", ("CMOS",), [{"noise": [{"ktc_bias_noise": {"ktc_noise": 1, "bias_offset": 2, "bias_amp": 2}}, {"white_read_noise": {"rd_noise": 1, "ref_pixel_noise_ratio": 2}}], "n_output": 1, "reference_pixel_border_width": 1}, {"noise": [{"white_read_noise": {"rd_noise": 2, "ref_pixel_noise_ratio": 1}}, {"uncorr_pink_noise": {"u_pink": 1}}], "n_output": 1, "reference_pixel_border_width": 0}], ["pixel"]),
}
# slow models are drawn less often
RARE = {"cosmix": 0.25}
# models that draw from the process-wide generator without a seed parameter of their own: inside a pipeline they are
# reproducible only through the pipeline seed (they are never put in 'own-seeds' pipelines)
PIPE_NOSEED = {
    "multiplication_register": ("charge_transfer", ("CCD",), [{"total_gain": 5, "gain_elements": 4}, {"total_gain": 8, "gain_elements": 6}], ["pixel"]),
    "multiplication_register_cic": ("charge_transfer", ("CCD",), [{"total_gain": 5, "gain_elements": 4, "pcic_rate": 0.01, "scic_rate": 0.005}], ["pixel"]),
    "sar_adc_with_noise": ("readout_electronics", ("CCD", "CMOS", "MKID", "APD"), [{"strengths": [0.0] * 16, "noises": [0.01] * 16}], ["signal"]),
}
# models that draw without a seed parameter of their own (only reproducible under pipeline_seed)
NOSEED = {
    "pulse_processing": ("phasing", ("MKID",), [{"wavelength": 0.6, "responsivity": 1.0}], ["charge"]),
}


def discover() -> dict:
    out = {}
    for g in GROUPS:
        mod = importlib.import_module(f"pyxel.models.{g}")
        for name in dir(mod):
            f = getattr(mod, name)
            if inspect.isfunction(f):
                try:
                    if "seed" in inspect.signature(f).parameters:
                        out[name] = g
                except (TypeError, ValueError):
                    pass
    return out


def _det_spec(rng, dtype):
    d = world.gen_detector(rng, types=(dtype,))
    d["row"], d["col"] = rng.randint(3, 5), rng.randint(3, 5)
    d["temperature"] = rng.choice([60.0, 80.0, 100.0]) if dtype == "APD" else rng.choice([80.0, 150.0, 200.0])
    d["adc_bit_resolution"] = 16
    d["full_well_capacity"] = 100000.0
    return d


def _prepare(det, needs, rows, cols):
    base = np.arange(rows * cols, dtype=float).reshape(rows, cols) * 3.0 + 50.0
    if "photon" in needs:
        det.photon.array = base.copy()
    if "charge" in needs:
        det.charge.add_charge_array(base.copy())
    if "pixel" in needs:
        det.pixel.array = base.copy() * 2
    if "signal" in needs:
        det.signal.array = base.copy() * 1e-3


def _table(name):
    return RECIPES if name in RECIPES else PIPE_NOSEED if name in PIPE_NOSEED else NOSEED


_SCRATCH = {"dir": None}


def _resolve(v):
    """'@qe' -> the scenario's scratch file, '@data/<file>' -> the data files shipped with pyxel's charge_generation models."""
    if isinstance(v, str) and v == "@qe":
        return os.path.join(_SCRATCH["dir"], "qe.npy")
    if isinstance(v, str) and v.startswith("@data/"):
        import pyxel.models.charge_generation as _cg

        return os.path.join(os.path.dirname(_cg.__file__), "data", v[6:])
    return v


def _model_entry(name, kwargs, seed):
    table = _table(name)
    g = table[name][0]
    args = copy.deepcopy(dict(kwargs))
    if seed is not None:
        args["seed"] = seed
    return g, {"name": name, "func": f"pyxel.models.{g}.{name}", "enabled": True, "arguments": args}


def _seed0(rng, hi=2**31):
    """a seed value; 0 (legal, falsy) comes up about once in eight draws without using another draw"""
    s = rng.randrange(1, hi)
    return 0 if s % 8 == 0 else s


def generate(rng, tier):
    if rng.random() < 0.08:
        from .. import calib

        scn = calib.gen_calibration(rng, tier, fit_ranges="full", multi_readout_p=0.0, weights_p=0.0, n_targets=(1, 2), islands=(1, 2, 2, 3))
        scn["kind"] = "calibration"
        scn["mode"]["pipeline_seed"] = _seed0(rng)
        scn["pipeline"]["charge_collection"][0]["arguments"]["draws"] = rng.randint(1, 3)
        scn["prior"] = [[rng.randrange(2**31), rng.randint(0, 40), rng.randint(0, 3)], [rng.randrange(2**31), rng.randint(0, 40), rng.randint(0, 3)]]
        scn["between"] = rng.choice(["none", "draws", "failed-run"])
        scn["sched"]["policy"] = rng.choice(["fifo", "lifo", "random", "random", "preempt"])
        # the repetition runs under another schedule: thread timing is not part of "the same configuration"
        scn["sched2"] = dict(scn["sched"], policy=rng.choice(["lifo", "lifo", "random", "preempt"]) if scn["sched"]["policy"] != "lifo" else rng.choice(["fifo", "random"]), sim_seed=rng.randrange(2**31), workers=rng.choice([1, 2, 4, 8]))
        return scn
    kind = rng.choice(["model", "model", "pipeline", "pipeline", "pipeline", "own-seeds", "failing", "noseed-model"])
    scn = {"kind": kind, "prior": [[rng.randrange(2**31), rng.randint(0, 40), rng.randint(0, 3)], [rng.randrange(2**31), rng.randint(0, 40), rng.randint(0, 3)]], "between": rng.choice(["none", "draws", "failed-run", "other-run"])}
    if kind == "noseed-model":
        name = rng.choice(sorted(NOSEED))
        g, types, kws, needs = NOSEED[name]
        scn.update({"model": name, "detector": _det_spec(rng, rng.choice(types)), "kwargs": rng.choice(kws), "seed": None, "needs": needs, "error_path": False})
        return scn
    if kind == "model":
        name = rng.choice(sorted(RECIPES))
        if rng.random() > RARE.get(name, 1.0):
            name = rng.choice(sorted(n for n in RECIPES if n not in RARE))
        g, types, kws, needs = RECIPES[name]
        scn.update({"model": name, "detector": _det_spec(rng, rng.choice(types)), "kwargs": rng.choice(kws), "seed": _seed0(rng), "needs": needs, "error_path": rng.random() < 0.25})
        return scn
    dtype = rng.choice(["CCD", "CMOS", "CMOS", "APD", "MKID"])
    scn["detector"] = _det_spec(rng, dtype)
    own = kind == "own-seeds"
    pipe: dict[str, list] = {}

    def add(name, p=1.0):
        table = _table(name)
        if dtype not in table[name][1] or rng.random() > p or (own and name in PIPE_NOSEED):
            return
        g, m = _model_entry(name, rng.choice(table[name][2]), rng.randrange(2**31) if own else None)
        pipe.setdefault(g, []).append(m)

    def probe(group, tag, write, draws):
        a = {"tag": tag, "level": 1, "write": write}
        if draws:
            a["draws"] = draws
            if own:
                a["seed"] = rng.randrange(2**31)
        pipe.setdefault(group, []).append({"name": tag, "func": world.PROBE, "enabled": True, "arguments": a})

    probe("photon_collection", "src", ["photon"], rng.choice([0, 2]))
    add("shot_noise", 0.7)
    add("simple_conversion", 0.7)
    add("conversion_with_qe_map", 0.25)
    add("simple_dark_current", 0.5)
    add("charge_deposition", 0.12)
    add("charge_deposition_in_mct", 0.08)
    add("cosmix", 0.03)
    add("dark_current", 0.3)
    add("dark_current_saphira", 0.5)
    add("radiation_induced_dark_current", 0.2)
    if "charge_generation" not in pipe:
        add("simple_dark_current", 1.0)
    pipe.setdefault("charge_collection", []).append({"name": "simple_collection", "func": "pyxel.models.charge_collection.simple_collection", "enabled": True, "arguments": {}})
    add("fixed_pattern_noise", 0.4)
    # the EMCCD registers loop over every electron: only behind sources of a few hundred electrons per pixel, one per pipeline
    heavy = {"dark_current", "dark_current_rule07", "radiation_induced_dark_current", "charge_deposition", "charge_deposition_in_mct", "cosmix"}
    if not any(m["name"] in heavy for ms in pipe.values() for m in ms):
        if rng.random() < 0.6:
            add("multiplication_register", 0.45)
        else:
            add("multiplication_register_cic", 0.45)
    add("nghxrg", 0.25)
    probe("charge_measurement", "meas", ["signal"], rng.choice([0, 1]))
    add("output_node_noise", 0.5)
    add("ktc_noise", 0.4)
    add("output_node_noise_cmos", 0.4)
    add("readout_noise_saphira", 0.4)
    add("sar_adc_with_noise", 0.3)
    scn["pipeline"] = {g: pipe[g] for g in GROUPS if g in pipe}
    scn["readout"] = {"times": [1.0, 2.5][: rng.randint(1, 2)], "start_time": 0.0, "non_destructive": rng.random() < 0.5}
    path = rng.choice(["exposure", "obs-seq", "obs-par", "obs-par"])
    scn["path"] = path
    seed = None if own else _seed0(rng)
    if path == "exposure":
        scn["mode"] = {"kind": "exposure", "pipeline_seed": seed}
    else:
        scn["mode"] = {
            "kind": "observation",
            "obs_mode": "product",
            "with_dask": path == "obs-par",
            "pipeline_seed": seed,
            "parameters": [{"key": "pipeline.photon_collection.src.arguments.level", "values": rng.sample([2, 3, 5, 8], rng.randint(2, 3)), "enabled": True}],
        }
        scn["sched"] = obs.gen_sched(rng)
        if path == "obs-par":
            # (the process-pool stub only exists for the task-atomic policies)
            scn["sched2"] = obs.gen_sched(rng, preemptive_ok=not scn["sched"].get("procs"))
            scn["sched2"]["procs"] = bool(scn["sched"].get("procs"))
    if kind == "failing":
        # raise inside the seeded section, after some draws happened
        tgt = rng.choice(["src", "meas"])
        for _, m in world.all_models(scn):
            if m["name"] == tgt:
                m["arguments"]["fail"] = {"step": len(scn["readout"]["times"]) - 1, "exc": rng.choice(["ValueError", "RuntimeError", "KeyError"])}
                if path != "exposure":
                    m["arguments"]["fail"]["level"] = scn["mode"]["parameters"][0]["values"][-1] if tgt == "src" else None
                    if m["arguments"]["fail"]["level"] is None:
                        del m["arguments"]["fail"]["level"]
    return scn


def shrink(scn):
    if scn["kind"] in ("model", "noseed-model", "calibration"):
        return
    for g, ms in scn["pipeline"].items():
        for k, m in enumerate(ms or []):
            if m["name"] in ("src", "simple_collection"):
                continue
            c = copy.deepcopy(scn)
            del c["pipeline"][g][k]
            if not c["pipeline"][g]:
                del c["pipeline"][g]
            yield c
    if len(scn["readout"]["times"]) > 1 and scn["kind"] != "failing":
        c = copy.deepcopy(scn)
        c["readout"]["times"] = c["readout"]["times"][:1]
        yield c
    if scn["between"] != "none":
        c = copy.deepcopy(scn)
        c["between"] = "none"
        yield c
    if scn.get("sched", {}).get("workers", 1) > 2:
        c = copy.deepcopy(scn)
        c["sched"]["workers"] = 2
        yield c
    if scn.get("mode", {}).get("parameters"):
        v = scn["mode"]["parameters"][0]["values"]
        if len(v) > 2:
            c = copy.deepcopy(scn)
            c["mode"]["parameters"][0]["values"] = v[:2]
            yield c


engine_stats: dict = {}


def _set_prior(p):
    np.random.seed(p[0])
    if p[1]:
        np.random.random(p[1])
    if len(p) > 2 and p[2]:
        np.random.standard_normal(p[2])  # an odd count leaves a cached Gaussian deviate in the state
        if p[2] % 2:
            engine_stats["prior_with_cached_gaussian"] = 1
    return np.random.get_state()


def _between(scn):
    b = scn["between"]
    if b == "draws":
        np.random.normal(size=7)
    elif b in ("failed-run", "other-run"):
        s = {
            "detector": dict(scn["detector"]),
            "pipeline": {"photon_collection": [{"name": "x", "func": world.PROBE, "enabled": True, "arguments": {"tag": "x", "level": 2, "write": ["photon"], "draws": 3}}]},
            "readout": {"times": [1.0], "start_time": 0.0, "non_destructive": False},
            "mode": {"kind": "exposure", "pipeline_seed": 99},
        }
        if b == "failed-run":
            s["pipeline"]["photon_collection"][0]["arguments"]["fail"] = {"step": 0, "exc": "ValueError"}
        expo.run_exposure(s, reset=False)


def _run_model(scn):
    import pyxel.models as _m  # noqa: F401

    name = scn["model"]
    g = (RECIPES.get(name) or NOSEED[name])[0]
    fn = getattr(importlib.import_module(f"pyxel.models.{g}"), name)
    undo = None
    if name == "pulse_processing":
        # stub: the (minutes-long) superconductor physics is not the subject here, the generator handling is
        import sys

        m = sys.modules[fn.__module__]
        orig = m.convert_to_phase
        m.convert_to_phase = lambda array_2d, **_kw: np.full(array_2d.shape, 3.0)
        undo = lambda: setattr(m, "convert_to_phase", orig)  # noqa: E731
    det = world.build_detector(scn["detector"])
    det.set_readout(times=[1.0], start_time=0.0)
    det.time, det.time_step = 1.0, 1.0
    rows, cols = scn["detector"]["row"], scn["detector"]["col"]
    if not scn.get("error_path"):
        _prepare(det, scn["needs"], rows, cols)
    exc = None
    kw = {k: _resolve(v) for k, v in copy.deepcopy(scn["kwargs"]).items()}
    if scn["seed"] is not None:
        kw["seed"] = scn["seed"]
    try:
        fn(det, **kw)
    except Exception as e:  # noqa: BLE001
        exc = e
    finally:
        if undo:
            undo()
    snap = probes.snap(det)
    h = hashlib.sha256()
    for k in ("photon", "charge", "pixel", "signal", "image"):
        v = snap.get(k)
        h.update(b"none" if v is None else np.ascontiguousarray(v).tobytes())
    return h.hexdigest()[:16], exc


def _run_world(scn, forced=None):
    """-> (digest, exc, sim info, rng info); does NOT reset the generator."""
    import pyxel

    probes.reset()
    path = scn["path"]
    scn = copy.deepcopy(scn)
    for _, m in world.all_models(scn):
        if m["func"].startswith("pyxel."):
            m["arguments"] = {k: _resolve(v) for k, v in m["arguments"].items()}
    mode, det, pipe = world.build_python(scn)
    exc, tree, sim, rs = None, None, None, seams.RngSeam()
    try:
        if path == "obs-par":
            sc = scn["sched"]
            sim = sched.Sim(random.Random(sc["sim_seed"]), policy=sc["policy"], workers=sc["workers"], preempt_p=sc["preempt_p"], pct_d=sc["pct_d"], forced=forced, procs=sc.get("procs", False))
            with rs.active(), sim.running():
                tree = pyxel.run_mode(mode=mode, detector=det, pipeline=pipe, with_inherited_coords=True).compute()
        else:
            tree = pyxel.run_mode(mode=mode, detector=det, pipeline=pipe, with_inherited_coords=True)
    except sched.HarnessError:
        raise
    except Exception as e:  # noqa: BLE001
        exc = e
    info = {}
    if sim is not None:
        info = {"digest": sim.digest(), "decisions": list(sim.decisions), "now": sim.now, "contested": sim.contested, "preemptions": sim.preemptions, "overlap": rs.overlap, "lockwait": sim.stats.get("seed_lock_wait", 0)}
    return obs.tree_digest(tree), exc, info


def execute(scn, forced=None):
    world.reset_process_state()
    engine_stats.clear()
    viol, stats = [], {}
    kind = scn["kind"]
    stats["kind:" + kind] = 1
    digests, excs, infos, restored = [], [], [], []
    feat = kind
    tb = ""
    scratch = world.Scratch()
    _SCRATCH["dir"] = scratch.path
    if "detector" in scn:
        r_, c_ = scn["detector"]["row"], scn["detector"]["col"]
        np.save(os.path.join(scratch.path, "qe.npy"), 0.2 + 0.6 * (np.arange(r_ * c_, dtype=float).reshape(r_, c_) % 5) / 5.0)
    cwd = os.getcwd()
    os.chdir(scratch.path)  # 'cosmix' writes its statistics into ./data of the current directory
    try:
        _execute_reps(scn, forced, kind, digests, excs, infos, restored, viol)
    finally:
        os.chdir(cwd)
        scratch.__exit__(None, None, None)
        _SCRATCH["dir"] = None
    return _judge(scn, kind, digests, excs, infos, restored, viol, stats)


_WARM: set = set()


def _warm_numba(scn):
    """Compile the numba kernels of the EMCCD models before any seam is active: numba resolves 'np.random.poisson' when it
    compiles, and must find numpy's function there, not the generator seam's wrapper."""
    names = {m["name"] for _, m in world.all_models(scn)} if "pipeline" in scn else {scn.get("model")}
    for name in sorted(names & {"multiplication_register", "multiplication_register_cic"} - _WARM):
        import pyxel.models.charge_transfer as ct

        det = world.build_detector({**scn["detector"], "type": "CCD"}) if scn["detector"]["type"] != "CCD" else world.build_detector(scn["detector"])
        det.pixel.array = np.ones((scn["detector"]["row"], scn["detector"]["col"]), dtype=float)
        kw = dict(PIPE_NOSEED[name][2][0])
        state = np.random.get_state()
        getattr(ct, name)(det, **kw)
        np.random.set_state(state)
        _WARM.add(name)


def _execute_reps(scn, forced, kind, digests, excs, infos, restored, viol):
    _warm_numba(scn)
    for rep in range(2):
        s0 = _set_prior(scn["prior"][rep])
        try:
            if kind in ("model", "noseed-model"):
                d, e = _run_model(scn)
                info = {}
            elif kind == "calibration":
                from .. import calib

                rec = calib.run_calibration(scn if rep == 0 or not scn.get("sched2") else dict(scn, sched=scn["sched2"]), forced=forced if rep == 0 else None, reset=False)
                d, e = calib.result_digest(rec["tree"]), rec["exc"]
                info = dict(rec.get("sim") or {})
                info["overlap"] = (rec.get("rng") or {}).get("overlap", 0)
            else:
                d, e, info = _run_world(scn if rep == 0 or not scn.get("sched2") else dict(scn, sched=scn["sched2"]), forced=forced if rep == 0 else None)
        except sched.HarnessError:
            raise
        except Exception:
            tb = traceback.format_exc(limit=5)
            d, e, info = "harness", None, {}
            viol.append({"clause": "C04.harness", "signature": f"C04.harness@{kind}", "detail": tb[-600:]})
        s1 = np.random.get_state()
        restored.append(obs._state_eq(s0, s1))
        digests.append(d)
        excs.append(e)
        infos.append(info)
        if rep == 0:
            _between(scn)


def _judge(scn, kind, digests, excs, infos, restored, viol, stats):
    feat = kind
    if kind in ("model", "noseed-model"):
        feat = f"model:{scn['model']}" + ("+error-path" if scn.get("error_path") else "")
        stats["model:" + scn["model"]] = 1
        if scn["model"].startswith("dark_current") and scn["kwargs"].get("temporal_noise") is False:
            stats["dark_current_spatial_noise_only"] = 1
            feat += "+spatial-only"
        if scn.get("seed") == 0:
            stats["model_seed_zero"] = 1
    elif kind == "calibration":
        overlap = max((i.get("overlap", 0) for i in infos), default=0)
        if overlap:
            stats["rng_overlap_runs"] = 1
            feat = "seeded+rng-overlap"
        else:
            feat = "calibration"
    else:
        stats["path:" + scn["path"]] = 1
        overlap = max((i.get("overlap", 0) for i in infos), default=0)
        seeded = scn["mode"].get("pipeline_seed") is not None
        if scn["mode"].get("pipeline_seed") == 0:
            stats["pipeline_seed_zero:" + scn["path"]] = 1
        names = sorted(m["name"] for _, m in world.all_models(scn) if m["func"].startswith("pyxel."))
        if scn["path"] == "obs-par" and overlap and not scn["sched"].get("procs"):
            stats["rng_overlap_runs"] = 1
            feat = "seeded+rng-overlap" if seeded else "own-seeds+rng-overlap"
        else:
            feat = f"{kind}+{scn['path']}"
            if "pulse_processing" in names and not seeded:
                feat += "+pulse_processing"
            unseeded = [n for n in names if n in PIPE_NOSEED]
            if unseeded:
                stats["pipeline_with_unseedable_model"] = 1
                feat += "+" + "+".join(unseeded)
        for n in names:
            stats["model:" + n] = 1
    stats.update(engine_stats)
    if any(i.get("lockwait") or (i.get("stats") or {}).get("seed_lock_wait") for i in infos):
        stats["seed_lock_contended"] = 1
    e0, e1 = excs
    if (e0 is None) != (e1 is None) or (e0 is not None and type(e0) is not type(e1)):
        viol.append({"clause": "C04.repro", "signature": f"C04.repro-outcome@{feat}", "detail": {"first": repr(e0)[:200], "second": repr(e1)[:200]}})
    if e0 is not None:
        stats["state_checked_after_error"] = 1
        if kind not in ("failing", "noseed-model") and not (kind == "model" and scn.get("error_path")):
            # an unexpected failure of the subject itself: report it, it may hide everything else
            if type(e0).__name__ == "SimDeadlock":
                viol.append({"clause": "C04.liveness", "signature": f"C04.liveness@{feat}", "detail": str(e0)})
            else:
                viol.append({"clause": "C04.subject-raises", "signature": f"C04.subject-raises@{feat}:{type(e0).__name__}", "detail": repr(e0)[:400]})
    elif kind == "failing":
        viol.append({"clause": "C04.harness", "signature": "C04.failure-not-raised", "detail": "injected failure did not surface"})
    if digests[0] != digests[1] and e0 is None and e1 is None:
        viol.append({"clause": "C04.repro", "signature": f"C04.repro@{feat}", "detail": {"digests": digests, "prior": scn["prior"], "between": scn["between"]}})
    if not all(restored):
        viol.append({"clause": "C04.state-restored", "signature": f"C04.state-restored@{feat}" + ("+after-error" if e0 is not None else ""), "detail": {"restored": restored, "raised": repr(e0)[:120] if e0 is not None else None}})
    seen, uniq = set(), []
    for v in viol:
        if v["signature"] not in seen:
            seen.add(v["signature"])
            uniq.append(v)
    info0 = infos[0] if infos else {}
    key = hashlib.sha256(engine.jdump({k: scn.get(k) for k in ("kind", "model", "kwargs", "pipeline", "path", "prior", "between", "sched")}).encode()).hexdigest()[:16]
    return {
        "violations": uniq,
        "stats": stats,
        "nontrivial": scn["prior"][0] != scn["prior"][1],
        "key": key,
        "digest": ":".join(digests) + ":" + (info0.get("digest") or ""),
        "sim_time": float(info0.get("now") or 0.0),
        "decisions": info0.get("decisions") or [],
        "sample": {"kind": kind, "model": scn.get("model"), "path": scn.get("path"), "models": sorted(m["name"] for _, m in world.all_models(scn)) if "pipeline" in scn else None, "policy": (scn.get("sched") or {}).get("policy"), "prior": scn["prior"], "between": scn["between"]},
    }


def coverage_extra():
    found = discover()
    return {"covered_models": sorted(n for n in found if n in RECIPES), "uncovered_models": sorted(n for n in found if n not in RECIPES), "models_drawing_without_seed_parameter": sorted([*NOSEED, *PIPE_NOSEED])}


_ = (os, ref)
