"""C05 — observation runs exactly the requested parameter space, correctly labelled."""

from __future__ import annotations

import copy
import hashlib
import os

import numpy as np

from .. import expo, obs, ref, world

ID = "C05"
LEVEL = "exploration"
FORCED_OK = True
TECHNIQUE = "deterministic simulation: probe models record the values actually applied in every simulated run (sequential, and parallel under the seeded scheduler with arbitrary completion order); multiset of applied tuples versus an independent reference parameter space, and values selected by label versus the reference model's closed-form prediction; custom tables through the real filesystem seam"
LEVEL_TEXT = "seeded exploration over parameter sets (1..4 parameters, scalar/vector, literal lists and numpy expressions, enabled/disabled, colliding short names, product/sequential/custom) x execution path (sequential, scheduler-driven parallel); sampled, not exhaustive"
LEVEL_NOTE = "trusted: reference parameter space and closed-form probe prediction in pyxsim/ref.py; values inside one list are unique and differ from the configured default (otherwise 'select by label' is ambiguous)"
RULE = (
    "generated observation (product | sequential | custom-from-table) over probe pipelines; executed on the sequential path or on the parallel path under a drawn schedule; "
    "distinct = distinct (mode, path, parameter kinds and list lengths); non-trivial = at least 2 runs and (>=2 parameters or a vector parameter or a disabled parameter)"
)
ASSUMPTIONS = [
    "the parallel path's one extra shape-discovery execution of an already requested combination is allowed as an execution, never as a result entry",
    "label lookup is positional and layout-aware (DESIGN.md C05); where a layout carries no coordinate for a parameter the run index is the label",
    "bucket values are compared exactly with the reference prediction after casting to float64 (uint16 images are exact in float32/float64)",
]
COMPONENTS = {"real": ["pyxel observation / parameter modes / evaluator / load_table", "dask get_async", "xarray", "filesystem (scratch dir)"], "stub": ["thread pool"]}
BUDGET = {"quick": {"n": 320, "wall": 100, "determinism": 4}, "thorough": {"n": 40000, "wall": 1500, "determinism": 12}}
REQUIRED_REACH = ["rerun_after_reconfiguration", "mode:product", "mode:sequential", "mode:custom", "path:par", "path:seq", "vector_param", "disabled_param", "numpy_expr", "colliding_names", "custom_file:txt", "custom_file:npy"]


def _gen_custom(rng, scn):
    """Custom mode: columns of a table assigned to parameters in declaration order."""
    models = [(g, m) for g, m in world.all_models(scn) if m.get("enabled", True)]
    cands = []
    for g, m in models:
        base = f"pipeline.{g}.{m['name']}.arguments"
        cands.append((f"{base}.level", 1))
        if "vec" in m["arguments"]:
            cands.append((f"{base}.vec", len(m["arguments"]["vec"])))
    cands.append(("detector.characteristics.quantum_efficiency", 1))
    rng.shuffle(cands)
    chosen = cands[: rng.randint(1, 3)]
    params, ncols = [], 0
    for key, n in chosen:
        params.append({"key": key, "values": "_" if n == 1 else ["_"] * n, "enabled": True})
        ncols += n
    if rng.random() < 0.2:
        g, m = models[0]
        params.append({"key": f"pipeline.{g}.{m['name']}.arguments.level", "values": [1, 2], "enabled": False})
    nrows = rng.randint(1, 5)
    table, seen = [], set()
    while len(table) < nrows:
        row = []
        for key, n in chosen:
            if key.endswith("quantum_efficiency"):
                row.append(rng.choice([0.1, 0.2, 0.3, 0.6, 0.9]))
            else:
                row.extend(float(rng.choice([1, 2, 3, 4, 6, 9])) + (0.5 if rng.random() < 0.3 else 0.0) for _ in range(n))
        if tuple(row) not in seen:
            seen.add(tuple(row))
            table.append(row)
    pad = rng.choice([0, 0, 1])
    scn["mode"].update({"obs_mode": "custom", "parameters": params, "table": table, "file_fmt": rng.choice(["txt", "npy"]), "pad_cols": pad})
    if pad:
        scn["mode"]["column_range"] = [pad, pad + ncols]


def generate(rng, tier):
    scn = obs.gen_observation(rng, tier, stochastic_p=0.0, sleep_p=0.3, stateful_p=0.0, obs_modes=("product", "product", "sequential", "custom"))
    scn["path"] = rng.choice(["seq", "par"])
    scn["sched"] = obs.gen_sched(rng, preemptive_ok=False)
    # colliding short names: make sure sometimes two models' `level` are swept together
    if scn["mode"]["obs_mode"] == "custom":
        _gen_custom(rng, scn)
    elif rng.random() < 0.35:
        en = [(g, m) for g, m in world.all_models(scn) if m.get("enabled", True)]
        if len(en) >= 2:
            keys = {p["key"] for p in scn["mode"]["parameters"]}
            for g, m in en[:2]:
                k = f"pipeline.{g}.{m['name']}.arguments.level"
                if k not in keys:
                    pool = [v for v in [4, 6, 9, 12] if v != m["arguments"].get("level")]
                    scn["mode"]["parameters"].append({"key": k, "values": rng.sample(pool, 2), "enabled": True})
            # keep the space small
            en_params = [p for p in scn["mode"]["parameters"] if p.get("enabled", True)]
            while np.prod([len(ref.param_values(p)) for p in en_params]) > 16 and len(en_params) > 1:
                victim = en_params.pop(0)
                scn["mode"]["parameters"].remove(victim)
    obs.ensure_fields_visible(scn)
    # history: the same Observation / detector / pipeline objects are run a second time after the
    # caller changed a configured value
    scn["rerun"] = None
    if scn["mode"]["obs_mode"] != "custom" and rng.random() < 0.4:
        en = [(g, m) for g, m in world.all_models(scn) if m.get("enabled", True)]
        g, m = rng.choice(en)
        swept = {p["key"]: ref.param_values(p) for p in scn["mode"]["parameters"] if p.get("enabled", True)}
        key = f"pipeline.{g}.{m['name']}.arguments.level"
        new = rng.choice([v for v in [13, 21.5, 34] if v not in swept.get(key, [])])
        scn["rerun"] = {"group": g, "model": m["name"], "arg": "level", "value": new}
    return scn


def shrink(scn):
    if scn["mode"]["obs_mode"] == "custom":
        t = scn["mode"]["table"]
        for i in range(len(t)):
            if len(t) > 1:
                c = copy.deepcopy(scn)
                del c["mode"]["table"][i]
                yield c
        return
    yield from obs.shrink_observation(scn)


def _applied(scn, run_events):
    """Values the probes actually saw in one run, keyed like the parameters."""
    out = {}
    for p in scn["mode"]["parameters"]:
        if not p.get("enabled", True):
            continue
        k = p["key"]
        parts = k.split(".")
        if parts[0] == "detector":
            f = "qe" if parts[-1] == "quantum_efficiency" else "temperature"
            out[k] = run_events[0]["fields"][f]
        else:
            _, g, name, _, arg = parts
            for ev in run_events:
                if ev["name"] == name:
                    out[k] = ev["kwargs"].get(arg)
                    break
    return out


def _same(a, b):
    return expo.norm(a) == expo.norm(b) or (isinstance(a, (int, float)) and isinstance(b, (int, float)) and float(a) == float(b)) or (
        isinstance(a, (list, tuple)) and isinstance(b, (list, tuple)) and len(a) == len(b) and all(float(x) == float(y) for x, y in zip(a, b))
    )


def _judge(scn, rec, path, feat, viol):
    """Executions and result entries of one observation run against the reference space."""
    combos, _idx = obs.expected_space(scn)
    runs = {}
    for ev in rec["hist"]:
        runs.setdefault(ev["run"], []).append(ev)
    remaining = list(range(len(combos)))
    extra_allowed = 1 if path == "par" else 0
    bad_exec = None
    for rid in sorted(runs):
        ap = _applied(scn, runs[rid])
        hit = next((i for i in remaining if all(_same(ap.get(k), v) for k, v in combos[i].items())), None)
        if hit is not None:
            remaining.remove(hit)
        elif extra_allowed and any(all(_same(ap.get(k), v) for k, v in c.items()) for c in combos):
            extra_allowed -= 1
        else:
            bad_exec = ap
            break
    if bad_exec is not None:
        viol.append({"clause": "C05.space", "signature": f"C05.space-extra-run@{feat}", "detail": {"applied": expo.norm(bad_exec), "expected_space": expo.norm(combos)[:8]}})
    elif remaining:
        viol.append({"clause": "C05.space", "signature": f"C05.space-missing-run@{feat}", "detail": {"never_executed": expo.norm([combos[i] for i in remaining])[:6], "runs_executed": len(runs)}})
    vals, problems = obs.per_run_values(scn, rec["tree"])
    if problems:
        kind = problems[0].split(":")[0]
        viol.append({"clause": "C05.labels", "signature": f"C05.labels-{kind}@{feat}", "detail": problems[:4]})
        return
    for r, (combo, got) in enumerate(zip(combos, vals)):
        pred = obs.predicted_run(scn, combo)
        for b, want in pred.items():
            if b == "charge" and not np.any(want):
                continue
            if b not in got:
                viol.append({"clause": "C05.values", "signature": f"C05.values-missing-bucket@{feat}", "detail": {"run": r, "bucket": b}})
                return
            g = np.asarray(got[b], dtype=float)
            w = np.asarray(want, dtype=float)
            if g.shape != w.shape or not np.array_equal(g, w):
                viol.append({"clause": "C05.values", "signature": f"C05.values-under-label@{feat}", "detail": {"run": r, "label": expo.norm(combo), "bucket": b, "got": g.ravel()[:3].tolist(), "want": w.ravel()[:3].tolist()}})
                return


def execute(scn, forced=None):
    viol, stats = [], {}
    mode = scn["mode"]
    om, path = mode["obs_mode"], scn["path"]
    stats["mode:" + om] = 1
    stats["path:" + path] = 1
    en = [p for p in mode["parameters"] if p.get("enabled", True)]
    if any(not p.get("enabled", True) for p in mode["parameters"]):
        stats["disabled_param"] = 1
    if any(p["key"].endswith(".vec") for p in en):
        stats["vector_param"] = 1
    if any(isinstance(p["values"], str) and "numpy" in p["values"] for p in en):
        stats["numpy_expr"] = 1
    shorts = [p["key"].split(".")[-1] for p in en]
    if len(set(shorts)) < len(shorts):
        stats["colliding_names"] = 1
    feat = f"{om}+{path}"
    with world.Scratch() as scratch:
        s = copy.deepcopy(scn)
        if om == "custom":
            stats["custom_file:" + mode["file_fmt"]] = 1
            pad = mode.get("pad_cols", 0)
            tab = np.array([[7.0] * pad + list(r) + [8.0] * pad for r in mode["table"]], dtype=float)
            fn = os.path.join(scratch, "custom." + mode["file_fmt"])
            if mode["file_fmt"] == "npy":
                np.save(fn, tab)
            else:
                np.savetxt(fn, tab, delimiter=" ")
            s["mode"]["from_file"] = fn
            if not pad:
                s["mode"].pop("column_range", None)
        rec = obs.run_observation(s, with_dask=(path == "par"), forced=forced, keep_objects=True)
    sim = rec.get("sim") or {}
    combos, _idx = obs.expected_space(scn)
    if rec["exc"] is not None:
        exc = rec["exc"]
        if type(exc).__name__ == "SimDeadlock":
            viol.append({"clause": "C05.liveness", "signature": f"C05.liveness@{feat}", "detail": str(exc)})
        else:
            extra = ""
            if om == "sequential" and "dim_0" in repr(exc):
                extra = "+two-vector-params-of-different-length"
            viol.append({"clause": "C05.runs", "signature": f"C05.runs@{feat}-raises:{type(exc).__name__}{extra}", "detail": {"exc": repr(exc)[:400], "tb": rec.get("tb", "")[-900:]}})
    else:
        _judge(scn, rec, path, feat, viol)
        if scn.get("rerun") and not viol and rec.get("objects"):
            stats["rerun_after_reconfiguration"] = 1
            rr = scn["rerun"]
            mode_o, det_o, pipe_o = rec["objects"]
            mf = next(m for m in getattr(pipe_o, rr["group"]).models if m.name == rr["model"])
            mf.arguments[rr["arg"]] = rr["value"]
            s2 = copy.deepcopy(scn)
            for _, m in world.all_models(s2):
                if m["name"] == rr["model"]:
                    m["arguments"][rr["arg"]] = rr["value"]
            rec2 = obs.run_observation(s2, with_dask=(path == "par"), objects=rec["objects"])
            if rec2["exc"] is not None:
                viol.append({"clause": "C05.runs", "signature": f"C05.rerun-raises@{feat}:{type(rec2['exc']).__name__}", "detail": repr(rec2["exc"])[:300]})
            else:
                _judge(s2, rec2, path, feat + "+second-run-after-reconfiguration", viol)
    seen, uniq = set(), []
    for v in viol:
        if v["signature"] not in seen:
            seen.add(v["signature"])
            uniq.append(v)
    shape = tuple((p["key"].split(".")[-1], len(ref.param_values(p)) if p["values"] != "_" and not (isinstance(p["values"], list) and "_" in p["values"]) else "_", p.get("enabled", True)) for p in mode["parameters"])
    return {
        "violations": uniq,
        "stats": stats,
        "nontrivial": len(combos) >= 2 and (len(en) >= 2 or stats.get("vector_param") or stats.get("disabled_param")),
        "key": hashlib.sha256(repr((om, path, shape)).encode()).hexdigest()[:16],
        "digest": obs.hist_digest(rec["hist"]) + ":" + obs.tree_digest(rec["tree"]) + ":" + (sim.get("digest") or ""),
        "sim_time": float(sim.get("now") or 0.0),
        "decisions": sim.get("decisions") or [],
        "sample": {"mode": {k: v for k, v in mode.items() if k != "table"}, "table_rows": len(mode.get("table") or []), "path": path, "runs": len(combos)},
    }
