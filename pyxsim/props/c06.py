"""C06 — parameter runs are isolated from each other and from the caller's objects."""

from __future__ import annotations

import contextlib
import copy
import hashlib

import numpy as np

from .. import expo, obs, ref, world

ID = "C06"
LEVEL = "exploration"
FORCED_OK = True
TECHNIQUE = "deterministic simulation: observations whose models keep state on the detector or mutate their own arguments are run sequentially and under the seeded scheduler (any interleaving / completion order, injected failure of one run); differential oracle against independently built standalone exposures, and deep structural snapshots of the caller's objects before/after (also after a failed call)"
LEVEL_TEXT = "seeded exploration over parameter spaces, stateful/mutating probe pipelines, execution paths, schedules and a failing run; every run must equal its own standalone exposure and the caller's detector/pipeline/readout/mode must be bit-identical afterwards"
LEVEL_NOTE = "trusted: the structural snapshot walker (attributes, arrays, frames, argument dictionaries); standalone exposures are built from the scenario description with the run's values substituted, on fresh objects"
RULE = (
    "generated observation with stateful and argument-mutating probes (list / ndarray / dict arguments, detector memory), product or sequential mode, sequential or scheduler-driven parallel path, optionally one failing run and polluted caller detector; "
    "distinct = distinct (mode, path, feature set, #runs); non-trivial = >=2 runs and at least one stateful or mutating model"
)
ASSUMPTIONS = [
    "a standalone exposure on fresh objects is the meaning of 'fresh'; equality is bit-exact after casting to float64",
    "the caller's objects are compared through a recursive walk of __dict__ / arrays / DataFrames / mappings; xarray trees via to_dict",
    "calibration variant: every candidate evaluation must start from a fresh copy (detector memory 0, unmutated arguments) and the caller's detector / pipeline / readout must be unchanged afterwards",
]
COMPONENTS = {"real": ["pyxel Processor deep copies / create_new_processor / Processor.replace / observation paths", "dask get_async"], "stub": ["thread pool"]}
BUDGET = {"quick": {"n": 240, "wall": 100, "determinism": 4}, "thorough": {"n": 30000, "wall": 1500, "determinism": 12}}
REQUIRED_REACH = ["calibrated_vector_mutated_by_model", "several_pairs_per_fitness_call", "variant:calibration", "line_level_preemption", "readout_times_swept", "path:seq", "path:par", "stateful", "mutate_list", "mutate_ndarray", "failed_run_snapshot", "polluted_caller", "mode:sequential", "mode:product"]


def generate(rng, tier):
    if rng.random() < 0.08:
        from .. import calib

        scn = calib.gen_calibration(rng, tier, fit_ranges="full", multi_readout_p=0.0, weights_p=0.0, n_targets=(1, 2), islands=(1, 2))
        scn["variant"] = "calibration"
        a = scn["pipeline"]["charge_collection"][0]["arguments"]
        a.update({"stateful": True, "mutate": True, "mvec": [1.0, 2.0], "extra": {"k": 1}})
        scn["nd_args"] = rng.random() < 0.5
        if "vec" in a and rng.random() < 0.6:
            a["mutate_vec"] = True  # the model also works in place on the calibrated vector it receives
        return scn
    scn = obs.gen_observation(rng, tier, stochastic_p=0.0, sleep_p=0.3, stateful_p=0.5, mutate_p=0.5, obs_modes=("product", "sequential"))
    scn["path"] = rng.choice(["seq", "par"])
    scn["sched"] = obs.gen_sched(rng, preemptive_ok=True)
    scn["sched"]["procs"] = False
    if scn["mode"]["obs_mode"] == "product" and rng.random() < 0.3:
        # the readout time itself as a swept parameter ('observation.readout.times', one readout per run)
        scn["readout"] = {"times": [1.0], "start_time": rng.choice([0.0, 0.5, -1.0]), "non_destructive": scn["readout"]["non_destructive"]}
        scn["mode"]["parameters"] = [p for p in scn["mode"]["parameters"] if p.get("enabled", True)][:1]
        scn["mode"]["parameters"].append({"key": "observation.readout.times", "values": rng.sample([2.0, 4.0, 7.5, 11.0], rng.randint(2, 3)), "enabled": True})
        scn["sched"]["lines"] = scn["sched"]["policy"] in ("preempt", "pct")
    scn["nd_args"] = rng.random() < 0.4  # pass vec as numpy arrays in the caller's pipeline
    scn["pollute"] = rng.random() < 0.3
    scn["fail_level"] = None
    if rng.random() < 0.25:
        # make one run fail: a swept level value triggers the failure
        for p in scn["mode"]["parameters"]:
            if p.get("enabled", True) and p["key"].endswith(".level") and isinstance(p["values"], list) and len(p["values"]) >= 1:
                name = p["key"].split(".")[2]
                for _, m in world.all_models(scn):
                    if m["name"] == name:
                        m["arguments"]["fail"] = {"level": p["values"][-1], "exc": "RuntimeError"}
                        scn["fail_level"] = [p["key"], p["values"][-1]]
                break
    return scn


def shrink(scn):
    if scn.get("variant") == "calibration":
        return
    yield from obs.shrink_observation(scn)
    for k in ("pollute", "nd_args"):
        if scn.get(k):
            c = copy.deepcopy(scn)
            c[k] = False
            yield c


def snapshot(obj, depth=0, seen=None):
    """Recursive structural snapshot (JSON-ish) of arbitrary pyxel objects."""
    import pandas as pd
    import xarray as xr

    if seen is None:
        seen = set()
    if obj is None or isinstance(obj, (bool, int, float, str, bytes)):
        return obj
    if isinstance(obj, (np.integer, np.floating, np.bool_)):
        return obj.item()
    if isinstance(obj, np.ndarray):
        return ("nd", str(obj.dtype), obj.shape, obj.tobytes() if obj.dtype != object else repr(obj.tolist()))
    if isinstance(obj, pd.DataFrame):
        return ("df", list(obj.columns), obj.to_numpy().tolist(), list(obj.index))
    if isinstance(obj, (xr.DataArray, xr.Dataset)):
        return {"__xr__": snapshot(obj.to_dict(), depth + 1, seen)}  # nested dicts: key order is irrelevant
    if isinstance(obj, xr.DataTree):
        return {"__dt__": {str(k): snapshot(v.to_dict(), depth + 1, seen) for k, v in obj.to_dict().items()}}
    if id(obj) in seen or depth > 12:
        return "<cycle>"
    if isinstance(obj, dict):
        return {str(k): snapshot(v, depth + 1, seen) for k, v in obj.items()}
    if isinstance(obj, (list, tuple)):
        return [snapshot(v, depth + 1, seen) for v in obj]
    if isinstance(obj, (set, frozenset)):
        return sorted(repr(x) for x in obj)
    mod = type(obj).__module__ or ""
    if hasattr(obj, "__dict__") and (mod.startswith("pyxel") or mod.startswith("pathlib")):
        seen = seen | {id(obj)}
        out = {"__class__": type(obj).__name__}
        for k, v in vars(obj).items():
            if k in ("_log", "_numbytes", "_func", "current_running_model_name", "EMPTY_FRAME"):
                continue
            out[k] = snapshot(v, depth + 1, seen)
        return out
    if hasattr(obj, "_arguments") and hasattr(obj, "keys"):
        return {str(k): snapshot(obj[k], depth + 1, seen) for k in obj.keys()}
    return repr(obj)


def _diff(a, b, path=""):
    if type(a) is not type(b):
        return f"{path}: {type(a).__name__} -> {type(b).__name__}"
    if isinstance(a, dict):
        for k in sorted(set(a) | set(b)):
            if k not in a or k not in b:
                return f"{path}.{k}: {'added' if k in b else 'removed'}"
            d = _diff(a[k], b[k], f"{path}.{k}")
            if d:
                return d
        return None
    if isinstance(a, (list, tuple)):
        if len(a) != len(b):
            return f"{path}: length {len(a)} -> {len(b)}"
        for i, (x, y) in enumerate(zip(a, b)):
            d = _diff(x, y, f"{path}[{i}]")
            if d:
                return d
        return None
    if isinstance(a, float) and isinstance(b, float) and a != a and b != b:
        return None
    return None if a == b else f"{path}: {str(a)[:60]!r} -> {str(b)[:60]!r}"


def _ndify(pipe):
    """Caller passes vector arguments as numpy arrays (legal for programmatic construction)."""
    for model in pipe:
        pass
    for g in ref.CANONICAL_GROUPS:
        grp = getattr(pipe, g)
        if not grp:
            continue
        for m in grp.models:
            if "mvec" in m.arguments:
                m.arguments["mvec"] = np.array(m.arguments["mvec"], dtype=float)


def _standalone(scn, combo):
    s = copy.deepcopy(scn)
    for key, val in combo.items():
        parts = key.split(".")
        if key == "observation.readout.times":
            s["readout"]["times"] = [float(val)]
        elif parts[0] == "detector":
            s["detector"]["qe" if parts[-1] == "quantum_efficiency" else "temperature"] = val
        else:
            _, g, name, _, arg = parts
            for m in s["pipeline"][g]:
                if m["name"] == name:
                    m["arguments"][arg] = copy.deepcopy(list(val) if isinstance(val, tuple) else val)
    s["mode"] = {"kind": "exposure"}
    import pyxel

    world.reset_process_state()
    mode, det, pipe = world.build_python(s)
    if scn.get("nd_args"):
        _ndify(pipe)
    tree = pyxel.run_mode(mode=mode, detector=det, pipeline=pipe, with_inherited_coords=True)
    ds = tree["/bucket"].to_dataset()
    return {b: np.asarray(ds[b].values) for b in ref.BUCKETS if b in ds.data_vars}


def execute_calibration(scn, forced=None):
    """Every candidate evaluation starts from a fresh copy; the caller's objects are untouched."""
    from .. import calib, probes

    viol, stats = [], {"variant:calibration": 1}
    hooks = {}

    def pre(cal, det, pipe):
        if scn.get("nd_args"):
            _ndify(pipe)
        hooks["before"] = {"detector": snapshot(det), "pipeline": snapshot(pipe), "readout": snapshot(cal.readout)}

    rec = calib.run_calibration(scn, forced=forced, pre_run=pre)
    sim = rec.get("sim") or {}
    if rec["exc"] is not None:
        exc = rec["exc"]
        sig = "C06.liveness@calibration" if type(exc).__name__ == "SimDeadlock" else f"C06.runs@calibration-raises:{type(exc).__name__}"
        viol.append({"clause": "C06.runs", "signature": sig, "detail": {"exc": repr(exc)[:300], "tb": rec.get("tb", "")[-600:]}})
    else:
        cal, det, pipe = rec["objects"]
        after = {"detector": snapshot(det), "pipeline": snapshot(pipe), "readout": snapshot(cal.readout)}
        for part in ("detector", "pipeline", "readout"):
            d = _diff(hooks["before"][part], after[part], part)
            if d:
                viol.append({"clause": "C06.caller-unchanged", "signature": f"C06.caller-unchanged@{part}+calibration", "detail": d})
        firsts = {}
        for ev in rec["hist"]:
            if ev["name"] == "cal" and ev["run"] not in firsts:
                firsts[ev["run"]] = ev
        for rid, ev in firsts.items():
            kw = ev["kwargs"]
            if ev.get("mem", 0) != 0 or expo.norm(kw.get("extra")) != {"k": 1} or [float(x) for x in np.asarray(kw.get("mvec")).ravel()] != [1.0, 2.0]:
                viol.append({"clause": "C06.run-equals-standalone", "signature": "C06.evaluation-not-fresh@calibration" + ("+nd-args" if scn.get("nd_args") else ""), "detail": {"evaluation": rid, "detector_memory": ev.get("mem"), "extra": expo.norm(kw.get("extra")), "mvec": expo.norm(kw.get("mvec"))}})
                break
        stats["calibration_evaluations"] = len(firsts)
        if scn["pipeline"]["charge_collection"][0]["arguments"].get("mutate_vec"):
            stats["calibrated_vector_mutated_by_model"] = 1
            # all evaluations of one fitness call (one per target / input pair) receive the candidate's vector
            for call in rec.get("fitlog") or []:
                vecs = [np.asarray(e["kwargs"].get("vec"), dtype=float).ravel().tolist() for e in call["events"] if e["name"] == "cal"]
                if len(vecs) > 1:
                    stats["several_pairs_per_fitness_call"] = 1
                if any(v != vecs[0] for v in vecs[1:]):
                    viol.append({"clause": "C06.run-equals-standalone", "signature": "C06.evaluation-not-fresh@calibration+vector-changed-by-earlier-evaluation", "detail": {"decision": call["x"], "vectors_received": vecs[:3]}})
                    break
    return {
        "violations": viol,
        "stats": stats,
        "nontrivial": True,
        "key": hashlib.sha256(repr((scn["mode"]["algorithm"], scn["mode"]["num_islands"], scn["sched"], scn.get("nd_args"))).encode()).hexdigest()[:16],
        "digest": (sim.get("digest") or "") + ":" + obs.hist_digest(rec["hist"]),
        "sim_time": float(sim.get("now") or 0.0),
        "decisions": sim.get("decisions") or [],
        "sample": {"variant": "calibration", "islands": scn["mode"]["num_islands"], "nd_args": scn.get("nd_args")},
    }


def execute(scn, forced=None):
    if scn.get("variant") == "calibration":
        return execute_calibration(scn, forced)
    import pyxel

    viol, stats = [], {}
    om, path = scn["mode"]["obs_mode"], scn["path"]
    stats["path:" + path] = 1
    stats["mode:" + om] = 1
    models = [m for _, m in ref.enabled_models(scn["pipeline"])]
    has_state = any(m["arguments"].get("stateful") for m in models)
    has_mut = any(m["arguments"].get("mutate") for m in models)
    if any(p["key"] == "observation.readout.times" for p in scn["mode"]["parameters"]):
        stats["readout_times_swept"] = 1
    if has_state:
        stats["stateful"] = 1
    if has_mut:
        stats["mutate_ndarray" if scn.get("nd_args") else "mutate_list"] = 1
    feat = f"{om}+{path}" + ("+nd-args" if scn.get("nd_args") and has_mut else "")
    combos, _ = obs.expected_space(scn)

    # --- run the observation on caller-owned objects, snapshot before / after
    import random

    from .. import sched, seams

    world.reset_process_state()
    s = copy.deepcopy(scn)
    s["mode"]["with_dask"] = path == "par"
    mode, det, pipe = world.build_python(s)
    if scn.get("nd_args"):
        _ndify(pipe)
    if scn.get("pollute"):
        stats["polluted_caller"] = 1
        rows, cols = scn["detector"]["row"], scn["detector"]["col"]
        det.pixel.array = np.full((rows, cols), 5.0)
        det.photon.array = np.full((rows, cols), 2.0)
        det._memory["probe:user"] = 41
    def snap_all():
        # the statement names detector, pipeline and readout; internal memo attributes of the
        # mode object (e.g. Observation.parameter_types) are not settings and are not compared
        return {
            "detector": snapshot(det),
            "pipeline": snapshot(pipe),
            "readout": snapshot(mode.readout),
            "parameters": [[p.key, snapshot(p.values), p.enabled] for p in mode.parameter_mode.parameters],
        }

    before = snap_all()
    exc, tree, sim = None, None, None
    sc = scn["sched"]
    try:
        if path == "par":
            sim = sched.Sim(random.Random(sc["sim_seed"]), policy=sc["policy"], workers=sc["workers"], preempt_p=sc["preempt_p"], pct_d=sc["pct_d"], forced=forced)
            ls = seams.LineSeam()
            if sc.get("lines"):
                stats["line_level_preemption"] = 1
            with (ls.active() if sc.get("lines") else contextlib.nullcontext()), sim.running():
                tree = pyxel.run_mode(mode=mode, detector=det, pipeline=pipe, with_inherited_coords=True)
                lazy = tree
                try:
                    tree = tree.compute()
                except Exception as e:  # a failing run: the rest must still be computable chunk-wise
                    exc = e
                    tree = None
        else:
            tree = pyxel.run_mode(mode=mode, detector=det, pipeline=pipe, with_inherited_coords=True)
    except sched.HarnessError:
        raise
    except Exception as e:
        exc = e
    after = snap_all()
    from .. import probes

    hist = list(probes.HIST)
    for part in ("detector", "pipeline", "readout", "parameters"):
        d = _diff(before[part], after[part], part)
        if d:
            viol.append({"clause": "C06.caller-unchanged", "signature": f"C06.caller-unchanged@{part}+{feat}" + ("+after-failure" if exc is not None else ""), "detail": d})
    if exc is not None:
        if scn.get("fail_level"):
            stats["failed_run_snapshot"] = 1
        elif type(exc).__name__ == "SimDeadlock":
            viol.append({"clause": "C06.liveness", "signature": f"C06.liveness@{feat}", "detail": str(exc)})
        else:
            viol.append({"clause": "C06.runs", "signature": f"C06.runs@{feat}-raises:{type(exc).__name__}", "detail": repr(exc)[:400]})
    elif scn.get("fail_level") and any(expo.norm(c.get(scn["fail_level"][0])) == expo.norm(scn["fail_level"][1]) for c in combos):
        viol.append({"clause": "C06.harness", "signature": "C06.failure-not-raised", "detail": "a run was configured to fail but the call returned (C09 territory)"})
    if tree is not None and exc is None:
        vals, problems = obs.per_run_values(scn, tree)
        if problems:
            viol.append({"clause": "C06.labels", "signature": f"C06.labels@{feat}", "detail": problems[:3]})
        else:
            for r, (combo, got) in enumerate(zip(combos, vals)):
                try:
                    want = _standalone(scn, combo)
                except Exception as e:
                    viol.append({"clause": "C06.harness", "signature": f"C06.standalone-raises:{type(e).__name__}", "detail": repr(e)[:300]})
                    break
                bad = None
                for b, w in want.items():
                    if b not in got:
                        continue
                    g = np.squeeze(np.asarray(got[b], dtype=float))
                    w = np.squeeze(np.asarray(w, dtype=float))
                    if g.shape != w.shape or not np.array_equal(g, w, equal_nan=True):
                        bad = (b, g.ravel()[:3].tolist(), w.ravel()[:3].tolist())
                        break
                if bad:
                    f2 = feat + ("+stateful" if has_state else "") + ("+mutate" if has_mut else "")
                    viol.append({"clause": "C06.run-equals-standalone", "signature": f"C06.run-equals-standalone@{f2}", "detail": {"run": r, "combo": expo.norm(combo), "bucket": bad[0], "got": bad[1], "standalone": bad[2], "n_runs": len(combos)}})
                    break
    simd = {}
    if sim is not None:
        simd = {"digest": sim.digest(), "decisions": list(sim.decisions), "now": sim.now}
    seen, uniq = set(), []
    for v in viol:
        if v["signature"] not in seen:
            seen.add(v["signature"])
            uniq.append(v)
    return {
        "violations": uniq,
        "stats": stats,
        "nontrivial": len(combos) >= 2 and (has_state or has_mut),
        "key": hashlib.sha256(repr((om, path, has_state, has_mut, scn.get("nd_args"), len(combos), bool(scn.get("fail_level")), scn.get("pollute"))).encode()).hexdigest()[:16],
        "digest": obs.hist_digest(hist) + ":" + obs.tree_digest(tree) + ":" + simd.get("digest", ""),
        "sim_time": float(simd.get("now") or 0.0),
        "decisions": simd.get("decisions") or [],
        "sample": {"mode": scn["mode"], "path": path, "stateful": has_state, "mutate": has_mut, "nd_args": scn.get("nd_args"), "fail": scn.get("fail_level")},
    }
