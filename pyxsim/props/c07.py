"""C07 — parallel execution yields the same results as sequential execution."""

from __future__ import annotations

import copy

import numpy as np

from .. import obs, ref

ID = "C07"
LEVEL = "exploration"
FORCED_OK = True
RULE = (
    "seeded swarm: generated observation scenario (detector, probe pipeline with data-dependent virtual delays, "
    "1..3 swept parameters, product/sequential mode, deterministic or seeded-stochastic) is run sequentially and then "
    "under the baton-passing scheduler with a drawn policy (fifo/lifo/random/preempt/pct), worker count 1..16 and "
    "optionally the process-pool stub; distinct = distinct (scenario digest, decision-list digest); non-trivial = the "
    "scheduler faced at least one contested decision (>1 runnable thread)"
)
ASSUMPTIONS = [
    "real dask get_async / xarray apply_ufunc / pyxel code run; the thread pool, the wait-for-a-task primitive and the process-wide numpy RNG entry points are simulator seams",
    "process pools and distributed schedulers are represented by a stub (pickled arguments/results, private generator state per task, atomic tasks)",
    "code inside numpy / numba is atomic to the scheduler",
    "calibration worker-count / island-order invariance is decided in the C10/C11 engine runs (same scheduler), see DESIGN.md",
]
COMPONENTS = {"real": ["pyxel", "dask.local.get_async", "xarray", "numpy"], "stub": ["thread pool (SimPool)", "process pool semantics", "queue wait"]}
BUDGET = {"quick": {"n": 96, "wall": 100, "determinism": 4}, "thorough": {"n": 2400, "wall": 1500, "determinism": 12}}
REQUIRED_REACH = ["contested_runs", "preempted_runs", "procs_runs", "rng_overlap_runs", "reordered_completion"]


def generate(rng, tier):
    scn = obs.gen_observation(rng, tier)
    return scn


def shrink(scn):
    yield from obs.shrink_observation(scn)
    if scn["sched"].get("procs"):
        c = copy.deepcopy(scn)
        c["sched"]["procs"] = False
        yield c


def execute(scn, forced=None):
    stats: dict[str, int] = {}
    viol: list[dict] = []
    seq = obs.run_observation(scn, with_dask=False)
    par = obs.run_observation(scn, with_dask=True, forced=forced)
    sim = par["sim"] or {}
    om = scn["mode"].get("obs_mode", "product")
    stochastic = scn["mode"].get("pipeline_seed") is not None
    preemptive = scn["sched"]["policy"] in ("preempt", "pct")
    overlap = (par.get("rng") or {}).get("overlap", 0)
    if stochastic and overlap:
        feat = "seeded+rng-overlap"
    elif stochastic:
        feat = f"{om}+seeded"
    else:
        feat = f"{om}"
    if sim.get("contested"):
        stats["contested_runs"] = 1
    if sim.get("preemptions"):
        stats["preempted_runs"] = 1
    if scn["sched"].get("procs"):
        stats["procs_runs"] = 1
    if overlap:
        stats["rng_overlap_runs"] = 1
    comp = [c for c in sim.get("completion", []) if "run_pipelines" in c]
    if comp != sorted(comp):
        stats["reordered_completion"] = 1
    stats["sleeps"] = sim.get("stats", {}).get("sleep", 0)
    stats["tasks"] = sim.get("stats", {}).get("task", 0)
    stats["policy:" + scn["sched"]["policy"]] = 1
    stats["workers:%d" % scn["sched"]["workers"]] = 1
    stats["mode:" + om] = 1

    if isinstance(par["exc"], Exception) and type(par["exc"]).__name__ == "SimDeadlock":
        viol.append({"clause": "C07.liveness", "signature": f"C07.liveness@{feat}", "detail": str(par["exc"])})
    elif seq["exc"] is not None and par["exc"] is not None:
        stats["both_raise"] = 1
    elif seq["exc"] is not None:
        # the sequential reference itself cannot run this configuration: nothing to compare against
        # (whether that failure is legitimate is C05's / C08's question, not C07's)
        stats["seq_reference_failed"] = 1
    elif par["exc"] is not None:
        exc = par["exc"]
        viol.append({
            "clause": "C07.same-outcome",
            "signature": f"C07.same-outcome@{om}+only-parallel-raises:{type(exc).__name__}",
            "detail": {"exc": repr(exc)[:400], "tb": (par.get("tb") or "")[-1200:]},
        })
    else:
        sv, sprob = obs.per_run_values(scn, seq["tree"])
        pv, pprob = obs.per_run_values(scn, par["tree"])
        combos, _ = obs.expected_space(scn)
        if pprob and not sprob:
            viol.append({"clause": "C07.space", "signature": f"C07.space@{om}+parallel", "detail": pprob[:4]})
        elif sprob and not pprob:
            viol.append({"clause": "C07.space", "signature": f"C07.space@{om}+sequential-path", "detail": sprob[:4]})
        elif sprob and pprob:
            viol.append({"clause": "C07.space", "signature": f"C07.space@{om}+both", "detail": (sprob + pprob)[:4]})
        else:
            bad = []
            for r, (a, b) in enumerate(zip(sv, pv)):
                for bucket in ref.BUCKETS:
                    if bucket not in a and bucket not in b:
                        continue
                    if bucket not in a or bucket not in b:
                        bad.append((r, bucket, "missing"))
                        continue
                    x, y = np.asarray(a[bucket], dtype=float), np.asarray(b[bucket], dtype=float)
                    if x.shape != y.shape or not np.array_equal(x, y, equal_nan=True):
                        bad.append((r, bucket, "differs"))
            if bad:
                viol.append({
                    "clause": "C07.values-equal",
                    "signature": f"C07.values-equal@{feat}",
                    "detail": {"first": bad[:5], "combo": combos[bad[0][0]], "policy": scn["sched"]["policy"], "workers": scn["sched"]["workers"], "rng_overlap": overlap},
                })
        if stochastic and not par["rng_restored"]:
            viol.append({"clause": "C07.rng-state", "signature": f"C07.rng-state@{feat}", "detail": "process-wide generator state differs after the parallel run"})
    key = None
    import hashlib

    key = hashlib.sha256((repr(sorted(str(scn).split())) + repr(sim.get("decisions"))).encode()).hexdigest()[:16]
    return {
        "violations": viol,
        "stats": stats,
        "nontrivial": bool(sim.get("contested")),
        "key": key,
        "digest": (sim.get("digest") or "") + ":" + obs.hist_digest(par["hist"]) + ":" + obs.tree_digest(par["tree"]),
        "sim_time": float(sim.get("now") or 0.0),
        "decisions": sim.get("decisions") or [],
        "sample": {"mode": scn["mode"], "sched": scn["sched"], "n_models": len(ref.enabled_models(scn["pipeline"])), "completion_order_head": sim.get("completion", [])[:6]},
    }

TECHNIQUE = "deterministic simulation: seeded baton-passing scheduler over dask's thread pool (policies fifo/lifo/random/preempt/PCT, 1..16 workers, process-pool stub), virtual data-dependent delays, differential oracle parallel-vs-sequential per parameter label"
LEVEL_TEXT = "seeded exploration of task schedules: each generated observation is executed sequentially and under a drawn schedule; every bucket of every labelled run must be bit-identical. A clean batch is evidence over the sampled schedules, not a proof."
LEVEL_NOTE = "trusted: the scheduler seam (SimPool + replaced dask.local.queue_get) reproduces the decision points of dask's threaded scheduler; numpy/numba internals are atomic; process pools are a stub"
