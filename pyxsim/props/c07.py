"""C07 — parallel execution yields the same results as sequential execution."""

from __future__ import annotations

import copy

import numpy as np

from .. import calib, obs, ref

ID = "C07"
LEVEL = "exploration"
FORCED_OK = True
RULE = (
    "seeded swarm: generated observation scenario (detector, probe pipeline with data-dependent virtual delays, "
    "1..3 swept parameters, product/sequential mode, deterministic or seeded-stochastic) is run sequentially and then "
    "under the baton-passing scheduler with a drawn policy (fifo/lifo/random/preempt/pct), worker count 1..16 and "
    "optionally the process-pool stub; distinct = distinct (scenario digest, decision-list digest); non-trivial = the "
    "scheduler faced at least one contested decision (>1 runnable thread)"
)
ASSUMPTIONS = [
    "real dask get_async / xarray apply_ufunc / pyxel code run; the thread pool, the wait-for-a-task primitive and the process-wide numpy RNG entry points are simulator seams",
    "process pools and distributed schedulers are represented by a stub (pickled arguments/results, private generator state per task, atomic tasks)",
    "code inside numpy / numba is atomic to the scheduler",
    "calibration variant: the same seeded calibration is run under two different schedules / worker counts (island creation jobs, candidate evaluations and adopted pygmo threads under the scheduler); champions and best individuals must be bit-identical (unconnected topology only)",
]
COMPONENTS = {"real": ["pyxel", "dask.local.get_async", "xarray", "numpy"], "stub": ["thread pool (SimPool)", "process pool semantics", "queue wait"]}
BUDGET = {"quick": {"n": 96, "wall": 100, "determinism": 4}, "thorough": {"n": 16000, "wall": 1500, "determinism": 12}}
REQUIRED_REACH = ["readout_times_swept", "variant:calibration", "island_creation_order_varied", "contested_runs", "preempted_runs", "procs_runs", "seed_lock_contended", "reordered_completion", "pipeline_seed_zero"]


def generate(rng, tier):
    if rng.random() < 0.12:
        # calibration: outcome for fixed seeds must not depend on worker count, schedule or island creation order
        scn = calib.gen_calibration(rng, tier, fit_ranges="full", multi_readout_p=0.0, weights_p=0.0, n_targets=(1, 2), islands=(2, 2, 3))
        scn["variant"] = "calibration"
        scn["sched_b"] = {"policy": rng.choice(["fifo", "lifo", "random", "preempt", "pct"]), "workers": rng.choice([1, 2, 3, 8, 16]), "preempt_p": 0.2, "pct_d": 2, "sim_seed": rng.randrange(2**31)}
        return scn
    scn = obs.gen_observation(rng, tier)
    if scn["mode"]["obs_mode"] == "product" and rng.random() < 0.2:
        # the readout time itself is one of the swept parameters (one readout per run)
        scn["readout"] = {"times": [1.0], "start_time": rng.choice([0.0, 0.5, -1.0]), "non_destructive": scn["readout"]["non_destructive"]}
        scn["mode"]["parameters"] = [p for p in scn["mode"]["parameters"] if p.get("enabled", True)][:1]
        scn["mode"]["parameters"].append({"key": "observation.readout.times", "values": rng.sample([2.0, 4.0, 7.5, 11.0], rng.randint(2, 3)), "enabled": True})
    return scn


def shrink(scn):
    if scn.get("variant") == "calibration":
        from . import c10

        yield from c10.shrink(scn)
        return
    yield from obs.shrink_observation(scn)
    if scn["sched"].get("procs"):
        c = copy.deepcopy(scn)
        c["sched"]["procs"] = False
        yield c


def execute_calibration(scn, forced=None):
    stats = {"variant:calibration": 1}
    viol = []
    a = calib.run_calibration(scn, forced=forced)
    sb = copy.deepcopy(scn)
    sb["sched"] = scn["sched_b"]
    b = calib.run_calibration(sb)
    sim = a.get("sim") or {}
    if a["exc"] is not None or b["exc"] is not None:
        exc = a["exc"] or b["exc"]
        if type(exc).__name__ == "SimDeadlock":
            viol.append({"clause": "C07.liveness", "signature": "C07.liveness@calibration", "detail": str(exc)})
        else:
            viol.append({"clause": "C07.same-outcome", "signature": f"C07.calibration-raises:{type(exc).__name__}", "detail": {"exc": repr(exc)[:400], "tb": (a.get("tb") or b.get("tb") or "")[-800:]}})
    else:
        da, db = calib.result_digest(a["tree"]), calib.result_digest(b["tree"])
        if da != db:
            ca, cb = a["tree"]["/champion/fitness"].values, b["tree"]["/champion/fitness"].values
            viol.append({"clause": "C07.calibration-invariant", "signature": f"C07.calibration-outcome-depends-on-schedule@islands={scn['mode']['num_islands']}", "detail": {"sched_a": scn["sched"], "sched_b": scn["sched_b"], "champion_fitness_a": ca.tolist(), "champion_fitness_b": cb.tolist()}})
        if (a["sim"] or {}).get("contested"):
            stats["contested_runs"] = 1
        order_a = [e for e in (a["sim"] or {}).get("decisions", []) if e.startswith("pool:")]
        order_b = [e for e in (b["sim"] or {}).get("decisions", []) if e.startswith("pool:")]
        if order_a != order_b:
            stats["island_creation_order_varied"] = 1
    import hashlib

    return {
        "violations": viol,
        "stats": stats,
        "nontrivial": bool(sim.get("contested")),
        "key": hashlib.sha256(repr((scn["mode"]["algorithm"], scn["mode"]["num_islands"], scn["sched"], scn["sched_b"])).encode()).hexdigest()[:16],
        "digest": (sim.get("digest") or "") + ":" + calib.result_digest(a["tree"]) + ":" + ((b.get("sim") or {}).get("digest") or ""),
        "sim_time": float(sim.get("now") or 0.0),
        "decisions": sim.get("decisions") or [],
        "sample": {"variant": "calibration", "islands": scn["mode"]["num_islands"], "sched_a": scn["sched"], "sched_b": scn["sched_b"]},
    }


def execute(scn, forced=None):
    if scn.get("variant") == "calibration":
        return execute_calibration(scn, forced)
    stats: dict[str, int] = {}
    viol: list[dict] = []
    seq = obs.run_observation(scn, with_dask=False)
    par = obs.run_observation(scn, with_dask=True, forced=forced)
    sim = par["sim"] or {}
    om = scn["mode"].get("obs_mode", "product")
    stochastic = scn["mode"].get("pipeline_seed") is not None
    if scn["mode"].get("pipeline_seed") == 0:
        stats["pipeline_seed_zero"] = 1
    preemptive = scn["sched"]["policy"] in ("preempt", "pct")
    overlap = (par.get("rng") or {}).get("overlap", 0)
    if stochastic and overlap:
        feat = "seeded+rng-overlap"
    elif stochastic:
        feat = f"{om}+seeded"
    else:
        feat = f"{om}"
    if sim.get("contested"):
        stats["contested_runs"] = 1
    if sim.get("preemptions"):
        stats["preempted_runs"] = 1
    if scn["sched"].get("procs"):
        stats["procs_runs"] = 1
    if overlap:
        stats["rng_overlap_runs"] = 1
    if sim.get("stats", {}).get("seed_lock_wait"):
        stats["seed_lock_contended"] = 1
    comp = [c for c in sim.get("completion", []) if "run_pipelines" in c]
    if comp != sorted(comp):
        stats["reordered_completion"] = 1
    stats["sleeps"] = sim.get("stats", {}).get("sleep", 0)
    stats["tasks"] = sim.get("stats", {}).get("task", 0)
    stats["policy:" + scn["sched"]["policy"]] = 1
    stats["workers:%d" % scn["sched"]["workers"]] = 1
    stats["mode:" + om] = 1
    if any(p["key"] == "observation.readout.times" for p in scn["mode"]["parameters"]):
        stats["readout_times_swept"] = 1

    if isinstance(par["exc"], Exception) and type(par["exc"]).__name__ == "SimDeadlock":
        viol.append({"clause": "C07.liveness", "signature": f"C07.liveness@{feat}", "detail": str(par["exc"])})
    elif seq["exc"] is not None and par["exc"] is not None:
        stats["both_raise"] = 1
    elif seq["exc"] is not None:
        # the sequential reference itself cannot run this configuration: nothing to compare against
        # (whether that failure is legitimate is C05's / C08's question, not C07's)
        stats["seq_reference_failed"] = 1
    elif par["exc"] is not None:
        exc = par["exc"]
        viol.append({
            "clause": "C07.same-outcome",
            "signature": f"C07.same-outcome@{om}+only-parallel-raises:{type(exc).__name__}",
            "detail": {"exc": repr(exc)[:400], "tb": (par.get("tb") or "")[-1200:]},
        })
    else:
        sv, sprob = obs.per_run_values(scn, seq["tree"])
        pv, pprob = obs.per_run_values(scn, par["tree"])
        combos, _ = obs.expected_space(scn)
        if pprob and not sprob:
            viol.append({"clause": "C07.space", "signature": f"C07.space@{om}+parallel", "detail": pprob[:4]})
        elif sprob and not pprob:
            viol.append({"clause": "C07.space", "signature": f"C07.space@{om}+sequential-path", "detail": sprob[:4]})
        elif sprob and pprob:
            viol.append({"clause": "C07.space", "signature": f"C07.space@{om}+both", "detail": (sprob + pprob)[:4]})
        else:
            bad = []
            for r, (a, b) in enumerate(zip(sv, pv)):
                for bucket in ref.BUCKETS:
                    if bucket not in a and bucket not in b:
                        continue
                    if bucket not in a or bucket not in b:
                        bad.append((r, bucket, "missing"))
                        continue
                    x, y = np.asarray(a[bucket], dtype=float), np.asarray(b[bucket], dtype=float)
                    if x.shape != y.shape or not np.array_equal(x, y, equal_nan=True):
                        bad.append((r, bucket, "differs"))
            if bad:
                viol.append({
                    "clause": "C07.values-equal",
                    "signature": f"C07.values-equal@{feat}",
                    "detail": {"first": bad[:5], "combo": combos[bad[0][0]], "policy": scn["sched"]["policy"], "workers": scn["sched"]["workers"], "rng_overlap": overlap},
                })
        if stochastic and not par["rng_restored"]:
            viol.append({"clause": "C07.rng-state", "signature": f"C07.rng-state@{feat}", "detail": "process-wide generator state differs after the parallel run"})
    key = None
    import hashlib

    key = hashlib.sha256((repr(sorted(str(scn).split())) + repr(sim.get("decisions"))).encode()).hexdigest()[:16]
    return {
        "violations": viol,
        "stats": stats,
        "nontrivial": bool(sim.get("contested")),
        "key": key,
        "digest": (sim.get("digest") or "") + ":" + obs.hist_digest(par["hist"]) + ":" + obs.tree_digest(par["tree"]),
        "sim_time": float(sim.get("now") or 0.0),
        "decisions": sim.get("decisions") or [],
        "sample": {"mode": scn["mode"], "sched": scn["sched"], "n_models": len(ref.enabled_models(scn["pipeline"])), "completion_order_head": sim.get("completion", [])[:6]},
    }

TECHNIQUE = "deterministic simulation: seeded baton-passing scheduler over dask's thread pool (policies fifo/lifo/random/preempt/PCT, 1..16 workers, process-pool stub), virtual data-dependent delays, differential oracle parallel-vs-sequential per parameter label"
LEVEL_TEXT = "seeded exploration of task schedules: each generated observation is executed sequentially and under a drawn schedule; every bucket of every labelled run must be bit-identical. A clean batch is evidence over the sampled schedules, not a proof."
LEVEL_NOTE = "trusted: the scheduler seam (SimPool + replaced dask.local.queue_get) reproduces the decision points of dask's threaded scheduler; numpy/numba internals are atomic; process pools are a stub. The clause on output files of a parallel observation (one-to-one with the parameter combinations) is decided by the C19 check, whose parallel starts run under the same scheduler (including runs with identical parameter values and seeded observations); swept readout times are compared on both execution paths"
