"""C08 — a dotted parameter key addresses exactly one existing setting."""

from __future__ import annotations

import ast
import copy
import hashlib
import traceback

import numpy as np

from .. import expo, obs, probes, ref, world

ID = "C08"
LEVEL = "exploration"
FORCED_OK = False
MAX_REPORTS = 10
TECHNIQUE = "deterministic simulation of processor histories: a seeded operation-and-fault sequence (set / get / has through dotted keys, with misspelt, truncated, extended, wrong-group and undeclared keys as injected faults) is applied to a real Processor next to a flat-dictionary reference model with a full settings snapshot after every step; plus whole-system fault injection of bad keys at every entry point (sweep, command-line style override) with the probe call log as witness that nothing ran"
LEVEL_TEXT = "seeded exploration over detector types, generated pipelines, key shapes and value shapes; system-level entry points are each hit with every bad-key class"
LEVEL_NOTE = "trusted: the valid key set enumerated from the scenario description; literal conversion oracle = ast.literal_eval if it parses, else the string itself (a pure function: covered only on values met along the way, DESIGN.md section 5); calibration entry point is injected in the C10 engine"
RULE = (
    "history of 4..12 key operations on one Processor (set valid key / get / has / faulty keys of 8 classes) followed by one system-level injection (observation sweep or override with a valid or faulty key); "
    "distinct = distinct (operation kinds, key classes, value kinds); non-trivial = at least one faulty key and one valid assignment in the same history"
)
ASSUMPTIONS = [
    "a full snapshot (every valid key read through direct attribute access) must change only at the addressed key",
    "a faulty key must be reported absent by has() and rejected by set() (any exception) with the snapshot unchanged and no new attribute anywhere",
    "system level: run_mode with a faulty sweep / override key must raise with an empty probe call log",
]
COMPONENTS = {"real": ["pyxel Processor.has/get/set, _get_obj_att, eval_entry, Observation.validate_steps, apply_overrides, run_mode"], "stub": []}
BUDGET = {"quick": {"n": 960, "wall": 100, "determinism": 4}, "thorough": {"n": 200000, "wall": 1500, "determinism": 12}}
BAD = ["other-detector-field", "misspelt-field", "misspelt-section", "truncated", "extended", "wrong-group", "wrong-model", "arguments-typo", "undeclared-arg", "model-as-key"]
REQUIRED_REACH = ["valid_on_other_detector_first", "duplicate_model_names", "op:set", "op:get", "op:has", "sys:sweep-bad", "sys:override-bad", "sys:sweep-disabled-model", "sys:sweep-ok", "sys:override-ok", "text_values", "offending_step_not_first", "set_on_copy", "sweep_multi_dask", "sweep_multi_sequential"] + ["bad:" + b for b in BAD]

DET_FIELDS = {
    "detector.geometry.row": "int+", "detector.geometry.col": "int+", "detector.geometry.total_thickness": "thick", "detector.geometry.pixel_vert_size": "size", "detector.geometry.pixel_horz_size": "size",
    "detector.environment.temperature": "temp", "detector.characteristics.quantum_efficiency": "qe", "detector.characteristics.full_well_capacity": "fwc",
    "detector.characteristics.adc_bit_resolution": "bits",
}
NON_APD = {"detector.characteristics.charge_to_volt_conversion": "c2v", "detector.characteristics.pre_amplification": "preamp"}

TEXT = [("1", 1), ("1.5", 1.5), ("[1, 2]", [1, 2]), ("abc", "abc"), ("'q'", "q"), ("1e3", 1000.0), ("-7", -7), ("[0.5, 'x']", [0.5, "x"]), ("a b", "a b"), ("(1, 2)", (1, 2)), ("True", True)]


def gen_value(rng, kind):
    if kind == "int+":
        return rng.choice([2, 3, 7, "4"])
    if kind == "thick":
        return rng.choice([10.0, 55.5, "40"])
    if kind == "size":
        return rng.choice([1.0, 12.5, "10.0"])
    if kind == "temp":
        return rng.choice([77.0, 300, "123.5"])
    if kind == "qe":
        return rng.choice([0.0, 0.33, 1.0, "0.5"])
    if kind == "fwc":
        return rng.choice([0, 5000.0, "1000"])
    if kind == "bits":
        return rng.choice([4, 16, 64, "12"])
    if kind == "c2v":
        return rng.choice([1e-6, 3.0, "0.5"])
    if kind == "preamp":
        return rng.choice([1.0, 100.0, "10"])
    if kind == "enabled":
        return rng.choice([True, False])
    # model argument: anything
    r = rng.random()
    if r < 0.35:
        t = rng.choice(TEXT)
        return t[0]
    return copy.deepcopy(rng.choice([0, 3, 2.5, -1.0, True, "xyz", [1, 2, 3], [0.5, "7"], ["a", "1.5"], {"__nd__": [1.0, 2.0]}]))


def valid_keys(scn):
    keys = dict(DET_FIELDS)
    if scn["detector"]["type"] != "APD":
        keys.update(NON_APD)
    for g, m in world.all_models(scn):
        base = f"pipeline.{g}.{m['name']}"
        keys[base + ".enabled"] = "enabled"
        for a in m["arguments"]:
            keys[f"{base}.arguments.{a}"] = "arg"
    return keys


APD_ONLY = ["detector.characteristics.avalanche_gain", "detector.characteristics.pixel_reset_voltage"]
NON_APD_ONLY = ["detector.characteristics.pre_amplification"]


def make_bad(rng, scn, cls):
    if cls == "other-detector-field":
        return rng.choice(NON_APD_ONLY if scn["detector"]["type"] == "APD" else APD_ONLY)
    models = world.all_models(scn)
    g, m = rng.choice(models)
    arg = rng.choice(sorted(m["arguments"]))
    if cls == "misspelt-field":
        return rng.choice(["detector.geometry.rowz", "detector.environment.temperatur", "detector.characteristics.quantum_eficiency", f"pipeline.{g}.{m['name']}.enable"])
    if cls == "misspelt-section":
        return rng.choice(["detector.geometri.row", "detector.enviroment.temperature", "detectr.geometry.row", f"pipelin.{g}.{m['name']}.arguments.{arg}"])
    if cls == "truncated":
        return rng.choice(["detector.geometry", "detector", f"pipeline.{g}", f"pipeline.{g}.{m['name']}.arguments", "pipeline"])
    if cls == "extended":
        return rng.choice(["detector.geometry.row.x", f"pipeline.{g}.{m['name']}.arguments.{arg}.deeper", "detector.environment.temperature.value"])
    if cls == "wrong-group":
        others = [x for x in ref.CANONICAL_GROUPS if x != g and not any(mm["name"] == m["name"] for mm in (scn["pipeline"].get(x) or []))]
        return f"pipeline.{rng.choice(others)}.{m['name']}.arguments.{arg}"
    if cls == "wrong-model":
        return f"pipeline.{g}.{m['name']}x.arguments.{arg}"
    if cls == "arguments-typo":
        return f"pipeline.{g}.{m['name']}.argument.{arg}"
    if cls == "undeclared-arg":
        return f"pipeline.{g}.{m['name']}.arguments.not_declared"
    if cls == "model-as-key":
        return f"pipeline.{g}.{m['name']}"
    raise ValueError(cls)


def generate(rng, tier):
    scn = {
        "detector": world.gen_detector(rng),
        "pipeline": world.gen_pipeline(rng, max_per_group=2, group_p=0.35, free_args=2, p_disabled=0.25),
        "readout": {"times": [1.0], "start_time": 0.0, "non_destructive": False},
        "ops": [],
    }
    for _, m in world.all_models(scn):
        m["arguments"] = {k: v for k, v in m["arguments"].items() if v is not None or k == "tag"}
    groups_used = [g for g in ref.CANONICAL_GROUPS if scn["pipeline"].get(g)]
    if len(groups_used) >= 2 and rng.random() < 0.3:
        # the same model name in two groups (the key carries the group, so both stay addressable)
        g1, g2 = groups_used[0], groups_used[-1]
        shared = scn["pipeline"][g1][0]["name"]
        scn["pipeline"][g2][-1]["name"] = shared
        scn["pipeline"][g1][0]["enabled"] = True
        scn["pipeline"][g2][-1]["enabled"] = False
        scn["dup_names"] = [g1, g2, shared]
    vk = valid_keys(scn)
    keys = sorted(vk)
    for _ in range(rng.randint(4, 12)):
        r = rng.random()
        if r < 0.4:
            k = rng.choice(keys)
            scn["ops"].append({"op": "set", "key": k, "value": gen_value(rng, vk[k]), "via": rng.choice(["direct", "direct", "direct", "copy", "replace"])})
        elif r < 0.5:
            scn["ops"].append({"op": "get", "key": rng.choice(keys)})
        elif r < 0.6:
            scn["ops"].append({"op": "has", "key": rng.choice(keys)})
        else:
            cls = rng.choice(BAD)
            key = make_bad(rng, scn, cls)
            if cls == "other-detector-field":
                # history: the same key was legitimately used on a detector of the other type just before
                scn["ops"].append({"op": "set", "key": key, "value": rng.choice([2.0, 3.0]), "on_other": True})
            scn["ops"].append({"op": rng.choice(["set", "set", "has"]), "key": key, "bad": cls, "value": rng.choice([1, 2.5, "3", "txt"])})
    # system-level injection
    kind = rng.choice(["sweep-bad", "sweep-bad", "override-bad", "override-bad", "sweep-disabled-model", "sweep-ok", "override-ok", "sweep-multi", "sweep-multi"])
    sysop = {"kind": kind}
    en = [(g, m) for g, m in world.all_models(scn) if m.get("enabled", True)]
    if kind == "sweep-multi" and len({m["name"] for _, m in en}) < 2:
        kind = sysop["kind"] = "sweep-ok"
    if kind == "sweep-multi":
        # three swept keys with pairwise disjoint value sets: a uniquely named argument declared first, then the same
        # argument name in two different models; each key may only ever receive its own values (also on the dask path)
        (g1, m1), (g2, m2) = rng.sample([(g, m) for g, m in en], 2)
        while m1["name"] == m2["name"]:
            (g1, m1), (g2, m2) = rng.sample([(g, m) for g, m in en], 2)
        m1["arguments"]["aux"] = 1.0
        sysop.update({"with_dask": rng.random() < 0.6, "keys": [[f"pipeline.{g1}.{m1['name']}.arguments.aux", [200, 300]], [f"pipeline.{g1}.{m1['name']}.arguments.level", [2, 3]], [f"pipeline.{g2}.{m2['name']}.arguments.level", [20, 30]]], "key": f"pipeline.{g1}.{m1['name']}.arguments.level", "m1": m1["name"], "m2": m2["name"]})
    dis = [(g, m) for g, m in world.all_models(scn) if not m.get("enabled", True)]
    if kind in ("sweep-bad", "override-bad"):
        cls = rng.choice(BAD)
        sysop.update({"bad": cls, "key": make_bad(rng, scn, cls)})
    elif kind == "sweep-disabled-model" and scn.get("dup_names"):
        g1, g2, shared = scn["dup_names"]
        sysop["key"] = f"pipeline.{g2}.{shared}.arguments.level"
    elif kind == "sweep-disabled-model":
        if not dis:
            g, m = world.all_models(scn)[-1]
            m["enabled"] = False
            dis = [(g, m)]
            en = [(g2, m2) for g2, m2 in world.all_models(scn) if m2.get("enabled", True)]
        g, m = rng.choice(dis)
        sysop["key"] = f"pipeline.{g}.{m['name']}.arguments.level"
    elif kind != "sweep-multi":
        if en:
            g, m = rng.choice(en)
            sysop["key"] = f"pipeline.{g}.{m['name']}.arguments.level"
        else:
            sysop["key"] = "detector.characteristics.quantum_efficiency"
    sysop["values"] = [0.25, 0.5] if sysop["key"].endswith("quantum_efficiency") else [3, 4]
    if kind in ("sweep-bad", "sweep-disabled-model") and rng.random() < 0.5:
        # the offending step is not the first one: a perfectly valid detector step is declared before it
        sysop["lead"] = ["detector.environment.temperature", [float(scn["detector"]["temperature"]), float(scn["detector"]["temperature"]) + 1.0]]
    scn["sys"] = sysop
    return scn


def shrink(scn):
    for i in range(len(scn["ops"])):
        c = copy.deepcopy(scn)
        del c["ops"][i]
        yield c
    for g, ms in scn["pipeline"].items():
        for i, m in enumerate(ms or []):
            used = any(f".{m['name']}." in o["key"] or o["key"].endswith("." + m["name"]) for o in scn["ops"]) or f".{m['name']}." in scn["sys"].get("key", "")
            if used:
                continue
            c = copy.deepcopy(scn)
            del c["pipeline"][g][i]
            if not c["pipeline"][g]:
                del c["pipeline"][g]
            if world.all_models(c):
                yield c


def unwrap(v):
    if isinstance(v, dict) and "__nd__" in v:
        return np.array(v["__nd__"])
    return v


def literal(value):
    """Reference conversion: the number / list / string a text literally denotes."""
    if isinstance(value, str):
        try:
            return ast.literal_eval(value)
        except (ValueError, SyntaxError):
            return value
    if isinstance(value, (list, tuple)):
        return [literal(v) if isinstance(v, str) and v else v for v in value]
    return value


def read_setting(proc, key):
    """Direct attribute walk (no Processor.get / has involved)."""
    parts = key.split(".")
    if parts[0] == "detector":
        section = getattr(proc.detector, parts[1])
        return expo.norm(getattr(section, "_" + parts[2]))  # private attribute: unset fields read as None
    group = getattr(proc.pipeline, parts[1])
    model = next(m for m in group.models if m.name == parts[2])
    if parts[3] == "enabled":
        return model.enabled
    return expo.norm(model.arguments._arguments[parts[4]])


def snapshot(proc, keys):
    out = {}
    for k in keys:
        try:
            out[k] = read_setting(proc, k)
        except Exception as exc:  # noqa: BLE001
            out[k] = f"<error {type(exc).__name__}>"
    return out


def attr_census(proc):
    """Names of instance attributes on the objects a key can reach (detects silently created attributes)."""
    out = {}

    def names(obj):
        try:
            return sorted(vars(obj))
        except TypeError:
            return [f"<replaced by {type(obj).__name__}>"]

    det = proc.detector
    for name, get in (
        ("processor", lambda: proc), ("detector", lambda: proc.detector), ("geometry", lambda: det.geometry), ("environment", lambda: det.environment),
        ("characteristics", lambda: det.characteristics), ("pipeline", lambda: proc.pipeline),
    ):
        try:
            out[name] = names(get())
        except Exception as exc:  # noqa: BLE001
            out[name] = [f"<unreachable {type(exc).__name__}>"]
    for g in ref.CANONICAL_GROUPS:
        try:
            grp = getattr(proc.pipeline, g)
        except Exception:  # noqa: BLE001
            continue
        if grp:
            try:
                out["group:" + g] = names(grp)
                for m in grp.models:
                    out[f"model:{g}.{m.name}"] = names(m) + sorted(m.arguments._arguments)
            except Exception as exc:  # noqa: BLE001
                out["group:" + g] = [f"<unreachable {type(exc).__name__}>"]
    return out


def _disabled_model_key(scn, key):
    parts = key.split(".")
    if parts[0] != "pipeline" or len(parts) < 3:
        return False
    return any(m["name"] == parts[2] and not m.get("enabled", True) for m in scn["pipeline"].get(parts[1]) or [])


def same_value(a, b):
    a, b = expo.norm(a), expo.norm(b)
    if isinstance(a, bool) != isinstance(b, bool):
        return False
    if isinstance(a, (int, float)) and isinstance(b, (int, float)):
        return float(a) == float(b)
    return a == b


def execute(scn):
    import pyxel
    from pyxel.exposure import Exposure
    from pyxel.observation import Observation, ParameterValues
    from pyxel.pipelines import Processor

    world.reset_process_state()
    viol, stats = [], {}
    det = world.build_detector(scn["detector"])
    pipe = world.build_pipeline(scn["pipeline"])
    proc = Processor(detector=det, pipeline=pipe)
    vk = valid_keys(scn)
    keys = sorted(vk)
    h = hashlib.sha256()
    had_bad = had_good = False

    def bad(clause, sig, detail):
        viol.append({"clause": clause, "signature": sig, "detail": detail})

    other_spec = dict(scn["detector"], type=("CCD" if scn["detector"]["type"] == "APD" else "APD"))
    other = Processor(detector=world.build_detector(other_spec), pipeline=world.build_pipeline(scn["pipeline"]))
    snap = snapshot(proc, keys)
    census = attr_census(proc)
    for i, op in enumerate(scn["ops"]):
        if op.get("on_other"):
            try:
                other.set(op["key"], op["value"])
                stats["valid_on_other_detector_first"] = 1
            except Exception as exc:  # noqa: BLE001
                bad("C08.set", "C08.set-valid-raises@other-detector", {"op": i, "key": op["key"], "exc": repr(exc)[:200]})
            continue
        stats["op:" + op["op"]] = stats.get("op:" + op["op"], 0) + 1
        key = op["key"]
        cls = op.get("bad")
        if cls:
            stats["bad:" + cls] = 1
            had_bad = True
        if op["op"] == "has":
            try:
                res = proc.has(key)
            except Exception as exc:  # noqa: BLE001
                res = exc
            if cls is None and res is not True:
                bad("C08.has", f"C08.has-valid-false@{vk[key]}", {"op": i, "key": key, "result": repr(res)[:120]})
            if cls is not None and cls not in ("truncated", "model-as-key") and res is True:
                bad("C08.has", f"C08.has-bad-true@{cls}", {"op": i, "key": key})
            h.update(repr((i, "has", res if isinstance(res, bool) else "exc")).encode())
        elif op["op"] == "get":
            try:
                got = proc.get(key)
                if not same_value(got, snap[key]) and not str(snap[key]).startswith("<error"):
                    bad("C08.get", f"C08.get-value@{vk[key]}", {"op": i, "key": key, "got": repr(got)[:80], "setting": repr(snap[key])[:80]})
            except Exception as exc:  # noqa: BLE001
                if snap[key] is not None and not str(snap[key]).startswith("<error"):
                    bad("C08.get", f"C08.get-raises@{vk[key]}", {"op": i, "key": key, "exc": repr(exc)[:160]})
        elif op.get("via") in ("copy", "replace") and cls is None:
            # assignment on a copy of the processor: the copy takes the value, the original keeps every setting
            value = unwrap(op["value"])
            stats["set_on_copy"] = 1
            try:
                if op["via"] == "replace":
                    p2 = proc.replace({key: value})
                else:
                    p2 = copy.deepcopy(proc)
                    p2.set(key, value)
                raised = None
            except Exception as exc:  # noqa: BLE001
                raised = exc
            new = snapshot(proc, keys)
            changed = [k for k in keys if new[k] != snap[k]]
            if changed or attr_census(proc) != census:
                bad("C08.only-that-setting", f"C08.assignment-on-copy-changed-original@{vk[key]}" + ("+disabled-model" if _disabled_model_key(scn, key) else ""), {"op": i, "key": key, "via": op["via"], "original_settings_changed": changed[:4]})
            elif raised is not None:
                bad("C08.set", f"C08.set-valid-raises@{vk[key]}+{type(value).__name__}+{op['via']}", {"op": i, "key": key, "value": repr(value)[:80], "exc": repr(raised)[:200]})
            else:
                had_good = True
                cp = snapshot(p2, keys)
                if not same_value(cp[key], literal(value)):
                    bad("C08.readback", f"C08.readback@{vk[key]}+{type(value).__name__}+{op['via']}", {"op": i, "key": key, "assigned": repr(value)[:80], "read_back": repr(cp[key])[:80]})
                others = [k for k in keys if k != key and cp[k] != snap[k]]
                if others:
                    bad("C08.only-that-setting", f"C08.only-that-setting@{vk[key]}+{op['via']}", {"op": i, "key": key, "also_changed": others[:4]})
            h.update(repr((i, "set-copy", key, type(raised).__name__ if raised else "ok")).encode())
        else:  # set
            value = unwrap(op["value"])
            if isinstance(op["value"], str):
                stats["text_values"] = 1
            try:
                proc.set(key, value)
                raised = None
            except Exception as exc:  # noqa: BLE001
                raised = exc
            new = snapshot(proc, keys)
            newc = attr_census(proc)
            if cls is None:
                had_good = True
                want = literal(value)
                if raised is not None:
                    bad("C08.set", f"C08.set-valid-raises@{vk[key]}+{type(value).__name__}", {"op": i, "key": key, "value": repr(value)[:80], "exc": repr(raised)[:200]})
                else:
                    if not same_value(new[key], want):
                        bad("C08.readback", f"C08.readback@{vk[key]}+{type(value).__name__}", {"op": i, "key": key, "assigned": repr(value)[:80], "denotes": repr(want)[:80], "read_back": repr(new[key])[:80]})
                    try:
                        g2 = proc.get(key)
                        if not same_value(g2, want):
                            bad("C08.readback", f"C08.get-after-set@{vk[key]}", {"op": i, "key": key, "got": repr(g2)[:80], "want": repr(want)[:80]})
                    except Exception as exc:  # noqa: BLE001
                        bad("C08.readback", f"C08.get-after-set-raises@{vk[key]}", {"op": i, "key": key, "exc": repr(exc)[:160]})
                    others = [k for k in keys if k != key and new[k] != snap[k]]
                    if others:
                        bad("C08.only-that-setting", f"C08.only-that-setting@{vk[key]}", {"op": i, "key": key, "also_changed": others[:4]})
                    if newc != census:
                        diff = {n: sorted(set(newc[n]) ^ set(census.get(n, []))) for n in newc if newc[n] != census.get(n)}
                        bad("C08.only-that-setting", f"C08.new-attribute-on-valid-set@{vk[key]}", {"op": i, "key": key, "attribute_sets_changed": diff})
            else:
                changed = [k for k in keys if new[k] != snap[k]]
                if raised is None:
                    diff = {n: sorted(set(newc[n]) ^ set(census.get(n, []))) for n in newc if newc[n] != census.get(n)}
                    bad("C08.bad-key-rejected", f"C08.bad-key-accepted@{cls}", {"op": i, "key": key, "settings_changed": changed[:4], "attribute_sets_changed": diff})
                elif changed or newc != census:
                    bad("C08.bad-key-rejected", f"C08.bad-key-side-effect@{cls}", {"op": i, "key": key, "settings_changed": changed[:4]})
            snap, census = new, newc
            if raised is None and cls is not None:
                # repair: rebuild so that one defect is reported once and the rest of the history stays meaningful
                det = world.build_detector(scn["detector"])
                pipe = world.build_pipeline(scn["pipeline"])
                proc = Processor(detector=det, pipeline=pipe)
                snap, census = snapshot(proc, keys), attr_census(proc)
            h.update(repr((i, "set", key, type(raised).__name__ if raised else "ok")).encode())
        if viol:
            break

    # ---- system-level injection on fresh objects
    sysop = scn["sys"]
    if scn.get("dup_names"):
        stats["duplicate_model_names"] = 1
    stats["sys:" + sysop["kind"]] = 1
    if sysop.get("bad"):
        stats["bad:" + sysop["bad"]] = 1
    if not viol:
        world.reset_process_state()
        det = world.build_detector(scn["detector"])
        pipe = world.build_pipeline(scn["pipeline"])
        readout = world.build_readout(scn["readout"])
        exc, tb = None, ""
        try:
            if sysop["kind"] == "sweep-multi":
                import dask

                mode = Observation(parameters=[ParameterValues(key=k, values=list(v)) for k, v in sysop["keys"]], readout=readout, with_dask=bool(sysop["with_dask"]))
                with dask.config.set(scheduler="sync"):
                    tree = pyxel.run_mode(mode=mode, detector=det, pipeline=pipe, with_inherited_coords=True)
                    if sysop["with_dask"]:
                        tree.compute()
            elif sysop["kind"].startswith("sweep"):
                lead = [ParameterValues(key=sysop["lead"][0], values=list(sysop["lead"][1]))] if sysop.get("lead") else []
                if lead:
                    stats["offending_step_not_first"] = 1
                mode = Observation(parameters=[*lead, ParameterValues(key=sysop["key"], values=list(sysop["values"]))], readout=readout)
                pyxel.run_mode(mode=mode, detector=det, pipeline=pipe, with_inherited_coords=True)
            else:
                mode = Exposure(readout=readout)
                pyxel.run_mode(mode=mode, detector=det, pipeline=pipe, override_dct={sysop["key"]: str(sysop["values"][0])}, with_inherited_coords=True)
        except Exception as e:  # noqa: BLE001
            exc, tb = e, traceback.format_exc(limit=4)
        ran = len(probes.HIST)
        kind = sysop["kind"]
        if kind in ("sweep-bad", "override-bad", "sweep-disabled-model"):
            feat = f"{kind}+{sysop.get('bad', 'disabled')}"
            if exc is None:
                bad("C08.system-rejects", f"C08.system-accepts@{feat}", {"key": sysop["key"], "model_executions": ran})
            elif ran:
                bad("C08.system-rejects", f"C08.system-ran-before-rejecting@{feat}", {"key": sysop["key"], "model_executions": ran, "exc": repr(exc)[:200]})
        else:
            if exc is not None:
                bad("C08.system-accepts-valid", f"C08.system-rejects-valid@{kind}", {"key": sysop["key"], "exc": repr(exc)[:300], "tb": tb[-500:]})
            elif kind == "sweep-multi":
                stats["sweep_multi_dask" if sysop["with_dask"] else "sweep_multi_sequential"] = 1
                runs: dict = {}
                for ev in probes.HIST:
                    r = runs.setdefault(ev["run"], {})
                    if ev["name"] == sysop["m1"]:
                        r["aux"], r["l1"] = ev["kwargs"].get("aux"), ev["kwargs"].get("level")
                    elif ev["name"] == sysop["m2"]:
                        r["l2"] = ev["kwargs"].get("level")
                got = {(expo.norm(r.get("aux")), expo.norm(r.get("l1")), expo.norm(r.get("l2"))) for r in runs.values()}
                want = {(float(a), float(b), float(c)) for a in (200, 300) for b in (2, 3) for c in (20, 30)}
                gotf = set()
                for t in got:
                    try:
                        gotf.add(tuple(float(x) for x in t))
                    except (TypeError, ValueError):
                        gotf.add(tuple(repr(x) for x in t))
                if gotf != want:
                    bad("C08.only-that-setting", "C08.swept-key-received-other-values@" + ("dask" if sysop["with_dask"] else "sequential"), {"keys": sysop["keys"], "received (aux, level, level)": sorted(map(repr, gotf))[:10]})
            elif kind == "override-ok" and sysop["key"].startswith("pipeline."):
                name = sysop["key"].split(".")[2]
                seen = [ev["kwargs"].get("level") for ev in probes.HIST if ev["name"] == name]
                if seen and not all(same_value(s, sysop["values"][0]) for s in seen):
                    bad("C08.readback", "C08.override-not-applied", {"key": sysop["key"], "saw": seen[:3], "wanted": sysop["values"][0]})
        h.update(repr((kind, type(exc).__name__ if exc else "ok", ran)).encode())
    seen, uniq = set(), []
    for v in viol:
        if v["signature"] not in seen:
            seen.add(v["signature"])
            uniq.append(v)
    return {
        "violations": uniq,
        "stats": stats,
        "nontrivial": had_bad and had_good,
        "key": hashlib.sha256(repr([(o["op"], o.get("bad"), vk.get(o["key"]), type(o.get("value")).__name__) for o in scn["ops"]] + [scn["sys"]["kind"], scn["sys"].get("bad")]).encode()).hexdigest()[:16],
        "digest": h.hexdigest()[:16],
        "sim_time": 0.0,
        "decisions": [],
        "sample": {"ops": scn["ops"][:5], "sys": scn["sys"], "detector": scn["detector"]["type"]},
    }


_ = obs
