"""C09 — a failing model always fails the run, with its identity attached."""

from __future__ import annotations

import copy
import hashlib
import random

import numpy as np

from .. import engine, expo, obs, ref, sched, world

ID = "C09"
LEVEL = "fault_enumeration"
FORCED_OK = True
TECHNIQUE = "deterministic simulation with enumerated fault injection: within each generated scenario a probe model is made to raise at every (run, step, model position), one position per simulated execution, cycling through every built-in Exception class constructible from a message (about 45) plus a user-defined class with a two-argument constructor; exposure, sequential observation and parallel observation under the seeded scheduler (failure in the eager first run or in any task under any completion order); oracles over the exception seen by the caller and the probe call log"
LEVEL_TEXT = "fault enumeration over crash points: all (failing run, step, position) of each generated scenario are injected in turn (bounded per scenario by the tier), classes rotated so that every class meets every mode; schedules for the parallel path are sampled"
LEVEL_NOTE = "trusted: probe raises exactly at the planned call; calibration phases (initial population / evolution) are injected in the calibration variant (every 16th scenario) through the same scheduler; pygmo re-raises as RuntimeError with embedded traceback, so only message and names are demanded there"
RULE = (
    "base scenario (2..4 enabled probe models, 1..3 steps, exposure | sequential observation | parallel observation with 1..2 swept parameters) x injection index j -> (failing level value or unconditional, step, model position, exception class); "
    "distinct = distinct (base scenario, position, class); non-trivial = the failure is not at the very first model call of the very first run"
)
ASSUMPTIONS = [
    "sequential observation: 'runs that had not started are not executed' is checked on the probe call log (no event of a later run after the failure)",
    "parallel observation: the failure must surface at run_mode() or at .compute(); a second, synchronous computation of the failing run's data must raise again (no stale or zero-filled data)",
    "__notes__ must name the group and the model; in sequential observation every swept key and the scalar values of the failing run must appear",
]
COMPONENTS = {"real": ["pyxel ModelGroup.run / observation paths / run_mode", "dask get_async error path (pack_exception / raise_exception)"], "stub": ["thread pool", "process-pool pickling of exceptions"]}
BUDGET = {"quick": {"n": 960, "wall": 110, "determinism": 4}, "thorough": {"n": 36000, "wall": 1600, "determinism": 12}}
K = {"quick": 12, "thorough": 24}
from ..probes import EXC as _EXC  # noqa: E402

EXCS = sorted(_EXC)
REQUIRED_REACH = ["entry:file", "error_already_noted", "variant:calibration", "cal_phase:initial", "cal_phase:evolution", "variant:exposure", "variant:obs-seq", "variant:obs-par", "par_failure_lazy", "par_failure_eager", "later_run_fails"] + ["exc:" + e for e in EXCS]


def _base(rng, tier):
    variant = rng.choice(["exposure", "obs-seq", "obs-seq", "obs-par", "obs-par"])
    scn = {
        "detector": world.gen_detector(rng),
        "pipeline": world.gen_pipeline(rng, max_per_group=2, group_p=0.3, free_args=0, p_disabled=0.15),
        "readout": world.gen_times(rng, nmax=3),
        "variant": variant,
        "debug": rng.random() < 0.3,
    }
    en = [(g, m) for g, m in world.all_models(scn) if m.get("enabled", True)]
    if len(en) < 2:
        for g, m in world.all_models(scn):
            m["enabled"] = True
        en = world.all_models(scn)
    if variant == "exposure":
        scn["mode"] = {"kind": "exposure"}
    else:
        g, m = en[rng.randrange(len(en))]
        default = m["arguments"].get("level")
        vals = rng.sample([v for v in [1, 2, 3, 5, 8] if v != default], rng.randint(2, 3))
        params = [{"key": f"pipeline.{g}.{m['name']}.arguments.level", "values": vals, "enabled": True}]
        if rng.random() < 0.5:
            params.append({"key": "detector.characteristics.quantum_efficiency", "values": [0.25, 0.75], "enabled": True})
            if rng.random() < 0.5:
                params.reverse()
        scn["mode"] = {"kind": "observation", "obs_mode": rng.choice(["product", "product", "sequential"]), "with_dask": variant == "obs-par", "parameters": params}
        scn["swept_model"] = m["name"]
        scn["sched"] = obs.gen_sched(rng)
    return scn


def positions(scn):
    en = ref.enabled_models(scn["pipeline"])
    steps = range(len(scn["readout"]["times"]))
    out = []
    if scn["variant"] == "exposure":
        for s in steps:
            for g, m in en:
                out.append({"level": None, "step": s, "model": m["name"]})
    else:
        vals = next(p["values"] for p in scn["mode"]["parameters"] if p["key"].endswith(".level"))
        for s in steps:
            for g, m in en:
                if m["name"] == scn["swept_model"]:
                    for v in vals:
                        out.append({"level": v, "step": s, "model": m["name"]})
                else:
                    out.append({"level": None, "step": s, "model": m["name"]})
    return out


def _calibration(seed, i, tier):
    """Calibration variant: fail the n-th evaluation (initial population or evolution phase)."""
    from .. import calib

    rng = random.Random(engine.splitmix(seed, "C09-cal", i))
    scn = calib.gen_calibration(rng, tier, fit_ranges="full", multi_readout_p=0.0, weights_p=0.0, n_targets=(1, 1, 2), islands=(1, 2))
    m = scn["mode"]
    scn["variant"] = "calibration"
    n_init = m["num_islands"] * m["algorithm"]["population_size"] * m["n_targets"]
    phase = rng.choice(["initial", "evolution", "evolution"])
    per_evo = m["num_islands"] * m["algorithm"]["population_size"] * m["algorithm"]["generations"] * m["n_targets"]
    call = rng.randrange(n_init) if phase == "initial" else n_init + rng.randrange(max(1, per_evo * m["num_evolutions"] - 1))
    exc = EXCS[i % len(EXCS)]
    scn["inject"] = {"model": "cal", "call": call, "exc": exc, "phase": phase}
    scn["pipeline"]["charge_collection"][0]["arguments"]["fail"] = {"call": call, "exc": exc}
    return scn


def generate_indexed(seed, i, tier):
    if i % 16 == 15:
        return _calibration(seed, i, tier)
    k = K[tier]
    b, j = divmod(i, k)
    rng = random.Random(engine.splitmix(seed, "C09-base", b))
    scn = _base(rng, tier)
    pos = positions(scn)
    inj = dict(pos[(j * 7 + b) % len(pos)])
    inj["exc"] = EXCS[(j + b) % len(EXCS)]
    scn["inject"] = inj
    for _, m in world.all_models(scn):
        if m["name"] == inj["model"]:
            f = {"step": inj["step"], "exc": inj["exc"]}
            if inj["level"] is not None:
                f["level"] = inj["level"]
            if (i // 3) % 4 == 1:
                f["noted"] = True  # the error leaves the model with a note of its own already attached
            m["arguments"]["fail"] = f
    if scn["variant"] == "exposure" and (i // 5) % 3 == 1:
        scn["entry"] = "file"  # started through pyxel.run(<yaml file>), no outputs section
    if "sched" in scn:
        scn["sched"]["sim_seed"] = engine.splitmix(seed, "C09-sim", i) % (2**31)
    return scn


def generate(rng, tier):  # pragma: no cover - engine uses generate_indexed
    return generate_indexed(rng.randrange(2**31), rng.randrange(1000), tier)


def shrink(scn):
    if scn.get("variant") == "calibration":
        return
    inj = scn["inject"]
    for g, ms in scn["pipeline"].items():
        for k, m in enumerate(ms or []):
            if m["name"] in (inj["model"], scn.get("swept_model")):
                continue
            c = copy.deepcopy(scn)
            del c["pipeline"][g][k]
            if not c["pipeline"][g]:
                del c["pipeline"][g]
            yield c
    if scn["variant"] != "exposure":
        ps = scn["mode"]["parameters"]
        if len(ps) > 1:
            for k, p in enumerate(ps):
                if not p["key"].endswith(".level"):
                    c = copy.deepcopy(scn)
                    del c["mode"]["parameters"][k]
                    yield c
        if scn["sched"]["workers"] > 2:
            c = copy.deepcopy(scn)
            c["sched"]["workers"] = 2
            yield c
    n = len(scn["readout"]["times"])
    if n > inj["step"] + 1:
        c = copy.deepcopy(scn)
        c["readout"]["times"] = c["readout"]["times"][: inj["step"] + 1]
        yield c


def _notes(exc):
    out, seen, e = [], set(), exc
    while e is not None and id(e) not in seen:
        seen.add(id(e))
        out.extend(getattr(e, "__notes__", []) or [])
        out.append(str(e))
        out.append(repr(e))  # e.g. an unpickled SyntaxError keeps its message in .args only
        # follow the chain exactly as a printed traceback would ('raise ... from None' hides the context)
        e = e.__cause__ if e.__cause__ is not None else (None if e.__suppress_context__ else e.__context__)
    return "\n".join(out)


def _check_exc(exc, scn, variant, viol, combo=None, feat=""):
    inj = scn["inject"]
    want_msg = f"injected:{inj['model']}:{inj['exc']}"
    group = next(g for g, m in world.all_models(scn) if m["name"] == inj["model"])
    text = _notes(exc)
    if want_msg not in text:
        viol.append({"clause": "C09.message", "signature": f"C09.message@{feat}+{inj['exc']}", "detail": {"got": repr(exc)[:300]}})
    if type(exc).__name__ != inj["exc"]:
        viol.append({"clause": "C09.type", "signature": f"C09.type@{feat}+{inj['exc']}->{type(exc).__name__}", "detail": repr(exc)[:300]})
    notes = "\n".join(getattr(exc, "__notes__", []) or [])
    if group not in notes or inj["model"] not in notes:
        viol.append({"clause": "C09.identity", "signature": f"C09.identity@{feat}", "detail": {"notes": notes[:400], "group": group, "model": inj["model"]}})
    if combo is not None:
        for k, v in combo.items():
            ok = k in notes
            if ok and isinstance(v, (int, float)):
                ok = any(r in notes for r in {repr(v), repr(float(v)), str(v)})
            if not ok:
                viol.append({"clause": "C09.parameters", "signature": f"C09.parameters@{feat}", "detail": {"notes": notes[:500], "missing": [k, v]}})
                break


def execute_calibration(scn, forced=None):
    from .. import calib

    viol, stats = [], {"variant:calibration": 1}
    inj = scn["inject"]
    stats["exc:" + inj["exc"]] = 1
    stats["cal_phase:" + inj["phase"]] = 1
    rec = calib.run_calibration(scn, forced=forced)
    sim = rec.get("sim") or {}
    fired = any(ev.get("raised") for ev in rec["hist"])
    feat = f"calibration+{inj['phase']}"
    if not fired:
        stats["cal_fault_not_reached"] = 1
        if rec["exc"] is not None:
            viol.append({"clause": "C09.spurious", "signature": f"C09.spurious@{feat}", "detail": repr(rec["exc"])[:300]})
    else:
        exc = rec["exc"]
        if exc is None:
            viol.append({"clause": "C09.raises", "signature": f"C09.raises@{feat}", "detail": {"note": "a model failed during the calibration but run_mode returned a result", "inject": inj}})
        elif type(exc).__name__ == "SimDeadlock":
            viol.append({"clause": "C09.liveness", "signature": f"C09.liveness@{feat}", "detail": str(exc)})
        else:
            text = _notes(exc)
            if f"injected:cal:{inj['exc']}" not in text:
                viol.append({"clause": "C09.message", "signature": f"C09.message@{feat}+{inj['exc']}", "detail": {"got": repr(exc)[:400]}})
            if "charge_collection" not in text or "cal" not in text:
                viol.append({"clause": "C09.identity", "signature": f"C09.identity@{feat}", "detail": {"text": text[-600:]}})
            if inj["phase"] == "initial" and type(exc).__name__ != inj["exc"]:
                viol.append({"clause": "C09.type", "signature": f"C09.type@{feat}+{inj['exc']}->{type(exc).__name__}", "detail": repr(exc)[:300]})
    return {
        "violations": viol,
        "stats": stats,
        "nontrivial": fired and inj["call"] > 0,
        "key": hashlib.sha256(engine.jdump([scn["mode"]["algorithm"], scn["mode"]["num_islands"], inj]).encode()).hexdigest()[:16],
        "digest": (sim.get("digest") or "") + ":" + obs.hist_digest(rec["hist"]),
        "sim_time": float(sim.get("now") or 0.0),
        "decisions": sim.get("decisions") or [],
        "sample": {"variant": "calibration", "inject": inj, "islands": scn["mode"]["num_islands"]},
    }


def _run_via_file(scn):
    """The same exposure started through the file entry point."""
    import os

    import pyxel

    from .. import probes

    world.reset_process_state()
    rec = {"exc": None, "tree": None}
    with world.Scratch() as scratch:
        path = os.path.join(scratch, "config.yaml")
        with open(path, "w") as fh:
            fh.write(world.to_yaml(scn))
        cwd = os.getcwd()
        os.chdir(scratch)
        try:
            rec["returned"] = pyxel.run(path)
        except sched.HarnessError:
            raise
        except BaseException as exc:  # noqa: BLE001
            rec["exc"] = exc
        finally:
            os.chdir(cwd)
    rec["hist"] = list(probes.HIST)
    return rec


def execute(scn, forced=None):
    if scn.get("variant") == "calibration":
        return execute_calibration(scn, forced)
    viol, stats = [], {}
    variant, inj = scn["variant"], scn["inject"]
    stats["variant:" + variant] = 1
    if any((m["arguments"].get("fail") or {}).get("noted") for _, m in world.all_models(scn)):
        stats["error_already_noted"] = 1
    stats["exc:" + inj["exc"]] = 1
    sim_time, simd, digest = 0.0, {}, ""
    if variant == "exposure":
        if scn.get("entry") == "file":
            stats["entry:file"] = 1
            a = _run_via_file(scn)
        else:
            a = expo.run_exposure(scn, debug=scn["debug"])
        exp = expo.expected_events(scn)
        cut = next(k + 1 for k, (s, n, _a) in enumerate(exp) if s == inj["step"] and n == inj["model"])
        if a["exc"] is None:
            viol.append({"clause": "C09.raises", "signature": f"C09.raises@exposure+debug={scn['debug']}", "detail": "model failure swallowed: run_mode returned a result"})
        else:
            _check_exc(a["exc"], scn, variant, viol, feat="exposure")
        msg = expo.compare_events(expo.events_of(a["hist"]), exp[:cut])
        if msg:
            viol.append({"clause": "C09.stops", "signature": "C09.stops@exposure", "detail": msg})
        nontrivial = cut > 1
        digest = obs.hist_digest(a["hist"])
    else:
        om = scn["mode"]["obs_mode"]
        with_dask = variant == "obs-par"
        feat = f"{variant}+{om}"
        rec = obs.run_observation(scn, with_dask=with_dask, forced=forced)
        simd = rec.get("sim") or {}
        sim_time = float(simd.get("now") or 0.0)
        combos, _ = obs.expected_space(scn)
        key_level = next(p["key"] for p in scn["mode"]["parameters"] if p["key"].endswith(".level"))
        failing = [r for r, c in enumerate(combos) if inj["level"] is None or float(c[key_level]) == float(inj["level"])]
        if not failing:
            # the failing level is never requested (sequential mode defaults): nothing must fail
            stats["no_failing_run"] = 1
            if rec["exc"] is not None:
                viol.append({"clause": "C09.spurious", "signature": f"C09.spurious@{feat}", "detail": repr(rec["exc"])[:300]})
            nontrivial = False
        else:
            f = failing[0]
            if f > 0:
                stats["later_run_fails"] = 1
            exc = rec["exc"]
            if exc is None:
                viol.append({"clause": "C09.raises", "signature": f"C09.raises@{feat}", "detail": {"note": "model failure swallowed: a result was returned and computed", "failing_runs": failing[:4]}})
            elif type(exc).__name__ == "SimDeadlock":
                viol.append({"clause": "C09.liveness", "signature": f"C09.liveness@{feat}", "detail": str(exc)})
            else:
                _check_exc(exc, scn, variant, viol, combo=combos[f] if not with_dask else None, feat=feat)
            if not with_dask:
                # prefix: runs < f complete, run f up to the failing call, nothing afterwards
                exp = []
                for r in range(f):
                    exp.extend(expo.expected_events(scn, overrides=combos[r]))
                ef = expo.expected_events(scn, overrides=combos[f])
                cut = next(k + 1 for k, (s, n, _a) in enumerate(ef) if s == inj["step"] and n == inj["model"])
                exp.extend(ef[:cut])
                msg = expo.compare_events(expo.events_of(rec["hist"]), exp)
                if msg:
                    viol.append({"clause": "C09.stops", "signature": f"C09.stops@{feat}", "detail": msg})
            else:
                if rec.get("lazy_tree") is not None:
                    stats["par_failure_lazy"] = 1
                    # stale / zero-filled data: recompute the failing run synchronously, must raise again
                    if exc is not None:
                        import dask

                        try:
                            with dask.config.set(scheduler="sync"):
                                ds = obs.bucket_ds(rec["lazy_tree"])
                                from .. import select

                                en = [p for p in scn["mode"]["parameters"] if p.get("enabled", True)]
                                names = select.dim_names([p["key"] for p in en])
                                sel = select.positions(ds, names, combos[f], None, f)
                                var = next(iter(ds.data_vars))
                                ds[var].isel(sel).compute()
                            viol.append({"clause": "C09.stale", "signature": f"C09.stale@{feat}", "detail": "second computation of the failing run returned data"})
                        except select.LabelError:
                            pass
                        except Exception as e2:
                            if f"injected:{inj['model']}" not in _notes(e2):
                                viol.append({"clause": "C09.stale", "signature": f"C09.stale-other-error@{feat}", "detail": repr(e2)[:300]})
                else:
                    stats["par_failure_eager"] = 1
            nontrivial = f > 0 or inj["step"] > 0
        digest = obs.hist_digest(rec["hist"]) + ":" + (simd.get("digest") or "")
    seen, uniq = set(), []
    for v in viol:
        if v["signature"] not in seen:
            seen.add(v["signature"])
            uniq.append(v)
    return {
        "violations": uniq,
        "stats": stats,
        "nontrivial": bool(nontrivial),
        "key": hashlib.sha256(engine.jdump({k: scn[k] for k in ("pipeline", "mode", "inject", "variant", "readout")}).encode()).hexdigest()[:16],
        "digest": digest,
        "sim_time": sim_time,
        "decisions": simd.get("decisions") or [],
        "sample": {"variant": variant, "inject": inj, "mode": scn["mode"]},
    }


_ = np
