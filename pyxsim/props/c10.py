"""C10 — calibration candidates map to the right parameters, inside their bounds."""

from __future__ import annotations

import copy
import hashlib
import random

import numpy as np

from .. import calib, engine, obs

ID = "C10"
LEVEL = "exploration"
FORCED_OK = True
TECHNIQUE = "deterministic simulation of whole calibrations: island-creation jobs, dask candidate evaluations and adopted pygmo island threads run under the seeded baton-passing scheduler while a closed-form probe logs the argument values of every evaluation; invariants over that evaluation log (bounds, slot assignment through disjoint boxes, log10 mapping) and over the reported champions / best individuals, plus direct calls of the problem object with simulator-drawn decision vectors"
LEVEL_TEXT = "seeded exploration over parameter layouts (scalar / vector, linear / logarithmic, shared / per-component boundaries), algorithms, seeds, 1..3 islands, 1..3 evolutions, worker counts and schedules; the arithmetic itself is a pure function - what the simulator adds is the evaluation log across concurrent evaluators and islands"
LEVEL_NOTE = "trusted: every component has its own disjoint box, so a value applied to the wrong parameter or slice is outside its box; 4-ulp slack for 10**log10(b); pygmo's C++ threads are controlled from their first Python-visible entry point"
RULE = (
    "generated calibration (1 scalar + optional 1..3-component vector parameter in drawn order, linear/log, shared or per-component boundaries, sade/sga, 1..3 islands, 1..3 evolutions, best individuals) run under a drawn schedule; "
    "distinct = distinct (parameter layout, algorithm, islands, evolutions, policy); non-trivial = >=2 decision components and the scheduler faced a contested decision"
)
ASSUMPTIONS = [
    "the probe's recorded keyword arguments are the values applied to the pipeline",
    "reported parameters must equal 10**decision (logarithmic) or decision (linear) exactly as numpy computes them; an applied vector must match a reported one to 1e-12 relative",
    "connected topologies are not generated (pygmo's asynchronous migration is documented as order dependent)",
]
COMPONENTS = {"real": ["pyxel calibration (Calibration, ModelFittingDataTree, ArchipelagoDataTree, DaskBFE, DaskIsland)", "pygmo algorithms and island threads", "dask get_async"], "stub": ["thread pool / ThreadPoolExecutor (SimExecutor)", "archipelago.wait_check baton release (proxy)"]}
BUDGET = {"quick": {"n": 64, "wall": 110, "determinism": 2}, "thorough": {"n": 7000, "wall": 1700, "determinism": 6}}
REQUIRED_REACH = ["algo:nlopt", "algo:sade", "algo:sga", "fitness_calls_checked", "rerun_of_same_objects", "log_param", "vector_param", "per_component_bounds", "shared_bounds", "islands>1", "best_individuals", "contested_runs", "direct_fitness_calls", "vector_before_scalar"]


def generate(rng, tier):
    scn = calib.gen_calibration(rng, tier, fit_ranges="full", multi_readout_p=0.0, weights_p=0.0, n_targets=(1, 1, 2))
    scn["direct_x_seed"] = rng.randrange(2**31)
    scn["rerun"] = rng.random() < 0.35
    if scn["sched"]["policy"] == "preempt":
        scn["sched"]["preempt_p"] = rng.choice([0.05, 0.2, 0.5])
    return scn


def shrink(scn):
    m = scn["mode"]
    if m["num_islands"] > 1:
        c = copy.deepcopy(scn)
        c["mode"]["num_islands"] -= 1
        yield c
    if m["num_evolutions"] > 1:
        c = copy.deepcopy(scn)
        c["mode"]["num_evolutions"] -= 1
        yield c
    if m["algorithm"]["generations"] > 1:
        c = copy.deepcopy(scn)
        c["mode"]["algorithm"]["generations"] = 1
        yield c
    if m.get("num_best_decisions"):
        c = copy.deepcopy(scn)
        c["mode"]["num_best_decisions"] = None
        yield c
    if scn["sched"]["workers"] > 2:
        c = copy.deepcopy(scn)
        c["sched"]["workers"] = 2
        yield c


def close(a, b, rel=1e-12):
    a, b = np.asarray(a, dtype=float), np.asarray(b, dtype=float)
    return a.shape == b.shape and bool(np.all(np.abs(a - b) <= rel * np.maximum(1.0, np.abs(b))))


def features(scn):
    params = scn["mode"]["parameters"]
    f = []
    if any(p.get("logarithmic") for p in params):
        f.append("log")
    if any(p["values"] != "_" for p in params):
        f.append("vector")
    return "+".join(f) or "scalar-linear"


def check_mapping(scn, rec, viol, stats):
    """Clauses shared with C11: evaluation log and reported vectors."""
    m = scn["mode"]
    params = m["parameters"]
    fb = calib.flat_bounds(params)
    evals = [e for e in calib.evaluations(scn, rec["hist"]) if "level" in e]
    feat = features(scn)
    # (a) every evaluation inside its box
    for e in evals:
        vec = calib.applied_vector(scn, e)
        for i, v in enumerate(vec):
            lo, hi = fb[i][0], fb[i][1]
            slack = (32 if fb[i][2] else 4) * np.spacing(max(abs(lo), abs(hi)))  # ten to the power of log10(bound) is the bound only up to the rounding of pow (a dozen ulps for these magnitudes)
            if not (lo - slack <= v <= hi + slack):
                viol.append({"clause": "C10.bounds", "signature": f"C10.bounds-evaluation@{feat}", "detail": {"component": i, "key": fb[i][3], "applied": v, "box": [lo, hi], "vector": vec}})
                return
    tree = rec["tree"]
    groups = [("champion", tree["/champion/decision"].values, tree["/champion/parameters"].values, tree["/champion/fitness"].values)]
    if "best" in tree.children and m.get("num_best_decisions"):
        stats["best_individuals"] = 1
        groups.append(("best", tree["/best/decision"].values, tree["/best/parameters"].values, tree["/best/fitness"].values))
    applied = [calib.applied_vector(scn, e) for e in evals]
    for name, dec, par, fit in groups:
        d2 = dec.reshape(-1, dec.shape[-1])
        p2 = par.reshape(-1, par.shape[-1])
        for x, pv in zip(d2, p2):
            if np.any(np.isnan(x)):
                continue
            want = [float(np.power(10.0, v)) if fb[i][2] else float(v) for i, v in enumerate(x)]
            if not close(pv, want, rel=0.0) and not close(pv, want, rel=1e-15):
                viol.append({"clause": "C10.log-mapping", "signature": f"C10.reported-parameters@{name}+{feat}", "detail": {"decision": x.tolist(), "reported": pv.tolist(), "expected": want}})
                return
            for i, v in enumerate(pv):
                lo, hi = fb[i][0], fb[i][1]
                slack = (32 if fb[i][2] else 4) * np.spacing(max(abs(lo), abs(hi)))  # ten to the power of log10(bound) is the bound only up to the rounding of pow (a dozen ulps for these magnitudes)
                if not (lo - slack <= v <= hi + slack):
                    viol.append({"clause": "C10.bounds", "signature": f"C10.bounds-reported@{name}+{feat}", "detail": {"component": i, "value": float(v), "box": [lo, hi]}})
                    return
            if not any(close(a, pv) for a in applied):
                viol.append({"clause": "C10.reported-were-applied", "signature": f"C10.reported-were-applied@{name}+{feat}", "detail": {"reported": pv.tolist(), "n_evaluations": len(applied), "closest": min(applied, key=lambda a: float(np.sum(np.abs(np.asarray(a) - pv)))) if applied else None}})
                return


def check_fitness_calls(scn, rec, viol, stats, tag=""):
    """Under any interleaving of concurrently evaluated candidates, the values the pipeline received during one
    fitness(x) call are the parameters of x (and of no other candidate)."""
    feat = features(scn)
    for call in rec.get("fitlog") or []:
        if call["exc"] is not None:
            continue
        want = calib.decision_to_parameters(scn["mode"]["parameters"], call["x"])
        evs = [e for e in calib.evaluations(scn, call["events"]) if "level" in e]
        stats["fitness_calls_checked"] = stats.get("fitness_calls_checked", 0) + 1
        if len(evs) != scn["mode"]["n_targets"]:
            viol.append({"clause": "C10.mapping", "signature": f"C10.evaluations-per-fitness-call{tag}", "detail": {"got": len(evs), "expected_pairs": scn["mode"]["n_targets"], "thread": call["thread"]}})
            return
        for e in evs:
            got = calib.applied_vector(scn, e)
            if not close(got, want, 1e-15):
                viol.append({"clause": "C10.mapping", "signature": f"C10.applied-is-not-the-candidate@{feat}{tag}", "detail": {"decision": call["x"], "applied": got, "expected": want, "thread": call["thread"]}})
                return


def direct_calls(scn, viol, stats, check_fitness=False):
    """problem.fitness(x) for simulator-drawn x: applied values must be ref.map(x)."""
    from pyxel.calibration import FitRange3D, to_fit_range
    from pyxel.calibration.fitting_datatree import ModelFittingDataTree
    from pyxel.pipelines import Processor

    from .. import probes, world

    rng = random.Random(scn["direct_x_seed"])
    fb = calib.flat_bounds(scn["mode"]["parameters"])
    with world.Scratch() as scratch:
        files = calib.write_inputs(scn, scratch)
        cal, det, pipe = calib.build_calibration(scn, files)
        try:
            problem = ModelFittingDataTree(
                processor=Processor(detector=det, pipeline=pipe), variables=cal.parameters, readout=cal.readout, simulation_output=cal.result_type,
                generations=cal.algorithm.generations, population_size=cal.algorithm.population_size, fitness_func=cal.fitness_function, file_path=None,
                target_filenames=cal.target_data_path, target_fit_range=to_fit_range(cal.target_fit_range), out_fit_range=FitRange3D.from_sequence(cal.result_fit_range),
                input_arguments=cal.result_input_arguments, weights=cal.weights, weights_from_file=cal.weights_from_file, with_inherited_coords=True, pipeline_seed=cal.pipeline_seed,
            )
        except Exception as exc:  # noqa: BLE001
            viol.append({"clause": "C10.problem", "signature": f"C10.problem-construction-raises:{type(exc).__name__}", "detail": repr(exc)[:300]})
            return
        lb, ub = problem.get_bounds()
        exp_lb = [np.log10(b[0]) if b[2] else b[0] for b in fb]
        exp_ub = [np.log10(b[1]) if b[2] else b[1] for b in fb]
        if not close(lb, exp_lb, 1e-15) or not close(ub, exp_ub, 1e-15):
            viol.append({"clause": "C10.bounds", "signature": f"C10.problem-bounds@{features(scn)}", "detail": {"lower": list(lb), "upper": list(ub), "expected_lower": exp_lb, "expected_upper": exp_ub}})
            return
        for _ in range(3):
            x = np.array([rng.uniform(lo, hi) for lo, hi in zip(exp_lb, exp_ub)])
            probes.HIST.clear()
            try:
                f = problem.fitness(x)
            except Exception as exc:  # noqa: BLE001
                viol.append({"clause": "C10.problem", "signature": f"C10.fitness-raises:{type(exc).__name__}", "detail": repr(exc)[:300]})
                return
            stats["direct_fitness_calls"] = stats.get("direct_fitness_calls", 0) + 1
            want = calib.decision_to_parameters(scn["mode"]["parameters"], x)
            evs = [e for e in calib.evaluations(scn, probes.HIST) if "level" in e]
            if len(evs) != scn["mode"]["n_targets"]:
                viol.append({"clause": "C10.mapping", "signature": "C10.evaluations-per-fitness-call", "detail": {"got": len(evs), "expected_pairs": scn["mode"]["n_targets"]}})
                return
            for e in evs:
                got = calib.applied_vector(scn, e)
                if not close(got, want, 1e-15):
                    viol.append({"clause": "C10.mapping", "signature": f"C10.slot-assignment@{features(scn)}", "detail": {"decision": x.tolist(), "applied": got, "expected": want, "parameters": [(p["key"].split(".")[-1], p["values"], p.get("logarithmic")) for p in scn["mode"]["parameters"]]}})
                    return
            if check_fitness:
                exp = calib.expected_fitness(scn, want, files["target_arrays"], files.get("weight_arrays"))
                if not np.isclose(f[0], exp, rtol=1e-9, atol=0.0):
                    viol.append({"clause": "C11.fitness-value", "signature": f"C11.fitness-value@direct+{scn['mode']['fitness']}", "detail": {"returned": float(f[0]), "expected": exp}})
                    return


def stats_for(scn, rec, stats):
    params = scn["mode"]["parameters"]
    if any(p.get("logarithmic") for p in params):
        stats["log_param"] = 1
    vecs = [p for p in params if p["values"] != "_"]
    if vecs:
        stats["vector_param"] = 1
        if np.array(vecs[0]["boundaries"]).ndim == 2:
            stats["per_component_bounds"] = 1
        else:
            stats["shared_bounds"] = 1
        if params[0]["values"] != "_":
            stats["vector_before_scalar"] = 1
    if scn["mode"]["num_islands"] > 1:
        stats["islands>1"] = 1
    sim = rec.get("sim") or {}
    if sim.get("contested"):
        stats["contested_runs"] = 1
    stats["algo:" + scn["mode"]["algorithm"]["type"]] = 1
    stats["policy:" + scn["sched"]["policy"]] = 1


def execute(scn, forced=None):
    viol, stats = [], {}
    rec = calib.run_calibration(scn, forced=forced, rerun=bool(scn.get("rerun")))
    stats_for(scn, rec, stats)
    sim = rec.get("sim") or {}
    if rec["exc"] is not None:
        exc = rec["exc"]
        if type(exc).__name__ == "SimDeadlock":
            viol.append({"clause": "C10.liveness", "signature": "C10.liveness", "detail": str(exc)})
        else:
            viol.append({"clause": "C10.runs", "signature": f"C10.runs-raises:{type(exc).__name__}@{features(scn)}", "detail": {"exc": repr(exc)[:400], "tb": rec.get("tb", "")[-800:]}})
    else:
        check_mapping(scn, rec, viol, stats)
        if not viol:
            check_fitness_calls(scn, rec, viol, stats)
        r2 = rec.get("rerun")
        if r2 is not None and not viol:
            stats["rerun_of_same_objects"] = 1
            if r2["exc"] is not None:
                viol.append({"clause": "C10.runs", "signature": f"C10.rerun-raises:{type(r2['exc']).__name__}@{features(scn)}", "detail": {"exc": repr(r2["exc"])[:400], "tb": r2.get("tb", "")[-800:]}})
            else:
                n0 = len(viol)
                check_mapping(scn, r2, viol, stats)
                if len(viol) == n0:
                    check_fitness_calls(scn, r2, viol, stats, tag="+second-run")
                for v in viol[n0:]:
                    if not v["signature"].endswith("+second-run"):
                        v["signature"] += "+second-run"
        if not viol:
            direct_calls(scn, viol, stats)
    ncomp = len(calib.flat_bounds(scn["mode"]["parameters"]))
    key = hashlib.sha256(engine.jdump([[(p["values"], p.get("logarithmic"), np.array(p["boundaries"]).ndim) for p in scn["mode"]["parameters"]], scn["mode"]["algorithm"], scn["mode"]["num_islands"], scn["mode"]["num_evolutions"], scn["sched"]["policy"], scn["sched"]["workers"]]).encode()).hexdigest()[:16]
    return {
        "violations": viol,
        "stats": stats,
        "nontrivial": ncomp >= 2 and bool(sim.get("contested")),
        "key": key,
        "digest": ((sim.get("digest") or "") + ":" + obs.hist_digest(rec["hist"]) + ":" + calib.result_digest(rec["tree"]) + (":" + obs.hist_digest(rec["rerun"]["hist"]) if rec.get("rerun") else "")) if rec["tree"] is not None else "exc",
        "sim_time": float(sim.get("now") or 0.0),
        "decisions": sim.get("decisions") or [],
        "sample": {"parameters": scn["mode"]["parameters"], "algorithm": scn["mode"]["algorithm"], "islands": scn["mode"]["num_islands"], "evolutions": scn["mode"]["num_evolutions"], "sched": scn["sched"], "evaluations": len(calib.evaluations(scn, rec["hist"]))},
    }
