"""C11 — calibration fitness is the declared figure of merit on the declared data."""

from __future__ import annotations

import copy
import hashlib

import numpy as np

from .. import calib, engine, obs
from . import c10

ID = "C11"
LEVEL = "exploration"
FORCED_OK = True
MAX_REPORTS = 8
TECHNIQUE = "deterministic simulation of whole calibrations under the seeded scheduler (island creation jobs, dask evaluations, adopted pygmo threads) with target / weight files written through the real filesystem; independent numpy recomputation of every reported fitness from the closed-form probe, history invariant over evolutions (champion never worse), re-simulation check of the returned simulated data, and fit-range fault injection (unequal extents, out of bounds) with the evaluation log as witness that optimisation never started"
LEVEL_TEXT = "seeded exploration over targets, fit-range pairs (equal, shifted, unequal extent, out of bounds, absent), weight vectors and weight files, 1..3 target/input pairs, single- and multi-readout targets, the three built-in fitness functions, islands, evolutions and schedules"
LEVEL_NOTE = "trusted: plain-numpy figures of merit in pyxsim/calib.py written from the documentation; relative tolerance 1e-9; the fitness formulas themselves are pure functions, the simulator contributes the evaluation log, the evolution history and the file seam"
RULE = (
    "generated calibration with drawn fit-range kind, weights kind, 1..3 target/input pairs, single or multi readout, fitness function, 1..3 islands, 1..3 evolutions, run under a drawn schedule; then three direct fitness calls; "
    "distinct = distinct (range kind, weights kind, pairs, readout kind, fitness function, islands, evolutions); non-trivial = a proper sub-region fit range or weights or >=2 pairs"
)
ASSUMPTIONS = [
    "a fit-range pair is valid when both ranges lie inside their data and select the same extent in every dimension (offsets may differ); everything else must be rejected before the first evaluation",
    "scalar weights apply to the whole selected region of their target; weight files are cut with the target range",
    "champion fitness is compared per island along the evolution axis (non-increasing)",
]
COMPONENTS = c10.COMPONENTS | {"real_extra": ["filesystem (scratch dir) for targets and weights", "numba-compiled fitness functions"]}
BUDGET = {"quick": {"n": 80, "wall": 115, "determinism": 2}, "thorough": {"n": 7000, "wall": 1700, "determinism": 6}}
REQUIRED_REACH = ["seeded_stochastic_model", "pipeline_seed_zero", "integer_typed_targets", "algo:nlopt", "algo:sade", "algo:sga", "range:equal", "range:shifted", "range:unequal", "range:oob", "range:none", "weights:list", "weights:file", "pairs>1", "multi_readout", "fitness:sum_of_abs_residuals", "fitness:sum_of_squared_residuals", "fitness:reduced_chi_squared", "simulated_checked", "simulated_computed_under_scheduler", "evolutions>1"]


def generate(rng, tier):
    scn = calib.gen_calibration(rng, tier, fit_ranges="sub", multi_readout_p=0.3, weights_p=0.4, n_targets=(1, 1, 2, 3), islands=(1, 2, 2, 3))
    m = scn["mode"]
    rows, cols = scn["detector"]["row"], scn["detector"]["col"]
    multi = bool(scn["readout"].get("times"))
    kind = rng.choice(["equal", "equal", "shifted", "unequal", "oob", "none"])
    m["range_kind"] = kind
    rr = list(m["result_fit_range"])
    tr = list(rr)
    if kind == "shifted":
        # same extent, other offset: needs room in the (padded) target
        m["target_pad"] = 1
        tr = list(rr)
        tr[-4] += 1
        tr[-3] += 1
        if rng.random() < 0.5:
            tr[-2] += 1
            tr[-1] += 1
    elif kind == "unequal":
        tr = list(rr)
        which = rng.choice(["row-start", "col-start", "row-stop"])
        if which == "row-start" and tr[-3] - tr[-4] >= 2:
            tr[-4] += 1  # same stop, smaller extent
        elif which == "col-start" and tr[-1] - tr[-2] >= 2:
            tr[-2] += 1
        else:
            m["target_pad"] = 1
            tr[-3] += 1  # larger extent in the target
    elif kind == "oob":
        tr = list(rr)
        pad = m.get("target_pad", 0)
        if rng.random() < 0.5:
            tr[-3] = rows + pad + 1
            tr[-4] = tr[-3] - (rr[-3] - rr[-4])
        else:
            tr[-1] = cols + pad + 2
            tr[-2] = tr[-1] - (rr[-1] - rr[-2])
    elif kind == "none":
        rr, tr = None, None
        m["target_pad"] = 0
    m["result_fit_range"], m["target_fit_range"] = rr, tr
    if kind == "none" and multi:
        pass
    if m["fitness"] == "reduced_chi_squared" and rr is not None:
        region = (rr[-3] - rr[-4]) * (rr[-1] - rr[-2]) * ((rr[1] - rr[0]) if multi else 1)
        nfree = m["fitness_arguments"]["free_parameters"]
        if region < nfree + 2:
            m["fitness"], m["fitness_arguments"] = "sum_of_abs_residuals", None
    scn["direct_x_seed"] = rng.randrange(2**31)
    if rng.random() < 0.3:
        # a stochastic calibrated model under a pipeline seed (0 is a legal seed): the reported fitness and the returned
        # simulated data belong to the seeded run
        scn["pipeline"]["charge_collection"][0]["arguments"]["draws"] = rng.randint(1, 3)
        m["pipeline_seed"] = rng.choice([0, 0, 7, 12345])
    return scn


def shrink(scn):
    yield from c10.shrink(scn)
    m = scn["mode"]
    if m.get("weights") or m.get("weights_file"):
        c = copy.deepcopy(scn)
        c["mode"]["weights"], c["mode"]["weights_file"] = None, False
        yield c
    if m["n_targets"] > 1:
        c = copy.deepcopy(scn)
        c["mode"]["n_targets"] = 1
        c["mode"]["result_input_arguments"] = None
        if c["mode"].get("weights"):
            c["mode"]["weights"] = c["mode"]["weights"][:1]
        yield c


def feat_of(scn):
    m = scn["mode"]
    f = [m["range_kind"]]
    if m.get("weights"):
        f.append("weights-list")
    if m.get("weights_file"):
        f.append("weights-file")
    if scn["readout"].get("times"):
        f.append("multi-readout")
    if m["n_targets"] > 1:
        f.append("pairs")
    return "+".join(f)


def execute(scn, forced=None):
    viol, stats = [], {}
    m = scn["mode"]
    kind = m["range_kind"]
    multi = bool(scn["readout"].get("times"))
    stats["range:" + kind] = 1
    stats["fitness:" + m["fitness"]] = 1
    if m.get("weights"):
        stats["weights:list"] = 1
    if m.get("weights_file"):
        stats["weights:file"] = 1
    if m["n_targets"] > 1:
        stats["pairs>1"] = 1
    if multi:
        stats["multi_readout"] = 1
    if m["num_evolutions"] > 1:
        stats["evolutions>1"] = 1
    stats["algo:" + m["algorithm"]["type"]] = 1
    if m.get("pipeline_seed") is not None:
        stats["seeded_stochastic_model"] = 1
        if m["pipeline_seed"] == 0:
            stats["pipeline_seed_zero"] = 1
    if m.get("target_dtype"):
        stats["integer_typed_targets"] = 1
    feat = feat_of(scn)
    valid = kind in ("equal", "shifted", "none")
    under_sim = m["num_islands"] >= 2 and valid
    if under_sim:
        stats["simulated_computed_under_scheduler"] = 1
    rec = calib.run_calibration(scn, forced=forced, compute_simulated=under_sim)
    sim = rec.get("sim") or {}
    nev = len(calib.evaluations(scn, rec["hist"]))
    if not valid:
        if rec["exc"] is None:
            viol.append({"clause": "C11.ranges-rejected", "signature": f"C11.invalid-ranges-accepted@{feat}", "detail": {"result_fit_range": m["result_fit_range"], "target_fit_range": m["target_fit_range"], "evaluations": nev}})
        elif nev:
            viol.append({"clause": "C11.ranges-rejected", "signature": f"C11.invalid-ranges-rejected-late@{feat}", "detail": {"result_fit_range": m["result_fit_range"], "target_fit_range": m["target_fit_range"], "evaluations_before_error": nev, "exc": repr(rec["exc"])[:300]}})
    elif rec["exc"] is not None:
        exc = rec["exc"]
        if type(exc).__name__ == "SimDeadlock":
            viol.append({"clause": "C11.liveness", "signature": "C11.liveness", "detail": str(exc)})
        else:
            viol.append({"clause": "C11.runs", "signature": f"C11.valid-configuration-raises:{type(exc).__name__}@{feat}", "detail": {"exc": repr(exc)[:500], "tb": rec.get("tb", "")[-900:], "result_fit_range": m["result_fit_range"], "target_fit_range": m["target_fit_range"]}})
    else:
        tree = rec["tree"]
        files = rec["files"]
        targets, warr = files["target_arrays"], files.get("weight_arrays")
        s2 = scn
        if kind == "none":
            rows, cols = scn["detector"]["row"], scn["detector"]["col"]
            s2 = copy.deepcopy(scn)
            full = [0, rows, 0, cols]
            if multi:
                full = [0, len(scn["readout"]["times"]), *full]
            s2["mode"]["result_fit_range"] = s2["mode"]["target_fit_range"] = full
        # reported champion fitness == independent recomputation for the reported parameters
        cf = tree["/champion/fitness"].values  # (island, evolution)
        cp = tree["/champion/parameters"].values  # (island, evolution, param)
        for isl in range(cf.shape[0]):
            for evo in range(cf.shape[1]):
                exp = calib.expected_fitness(s2, [float(v) for v in cp[isl, evo]], targets, warr)
                if not np.isclose(cf[isl, evo], exp, rtol=1e-9, atol=0.0):
                    viol.append({"clause": "C11.fitness-value", "signature": f"C11.fitness-value@champion+{m['fitness']}+{feat}", "detail": {"island": isl, "evolution": evo, "reported": float(cf[isl, evo]), "recomputed": exp, "parameters": cp[isl, evo].tolist()}})
                    break
            if viol:
                break
            # history invariant: never worse after an evolution
            worse = [e for e in range(1, cf.shape[1]) if cf[isl, e] > cf[isl, e - 1]]
            if worse:
                viol.append({"clause": "C11.monotone", "signature": "C11.champion-got-worse", "detail": {"island": isl, "fitness_per_evolution": cf[isl].tolist()}})
        if not viol and "best" in tree.children and m.get("num_best_decisions"):
            bf, bp = tree["/best/fitness"].values, tree["/best/parameters"].values
            for idx in np.ndindex(bf.shape):
                if np.isnan(bf[idx]):
                    continue
                exp = calib.expected_fitness(s2, [float(v) for v in bp[idx]], targets, warr)
                if not np.isclose(bf[idx], exp, rtol=1e-9, atol=0.0):
                    viol.append({"clause": "C11.fitness-value", "signature": f"C11.fitness-value@best+{m['fitness']}+{feat}", "detail": {"index": list(idx), "reported": float(bf[idx]), "recomputed": exp}})
                    break
        # returned simulated data == re-simulation of the last champion (computed synchronously, outside the simulator)
        if not viol:
            import dask

            rt = m["result_type"]
            try:
                if rec.get("simulated") is not None:
                    simd, fulld, tgt = rec["simulated"][rt], rec["full_size"][rt], rec["simulated"]["target"]
                else:
                    with dask.config.set(scheduler="sync"):
                        simd = np.asarray(tree[f"/simulated/{rt}"].compute().values)
                        fulld = np.asarray(tree[f"/full_size/simulated_{rt}"].compute().values)
                        tgt = np.asarray(tree["/simulated/target"].values)
                stats["simulated_checked"] = 1
                st, sy, sx = calib.slices(s2["mode"]["result_fit_range"], multi)
                tt, ty, tx = calib.slices(s2["mode"]["target_fit_range"], multi)
                for isl in range(cf.shape[0]):
                    vals = [float(v) for v in cp[isl, -1]]
                    for i in range(m["n_targets"]):
                        want_full = calib.simulated(scn, i, vals)
                        if not np.allclose(fulld[isl, i], want_full, rtol=1e-12, atol=0.0):
                            viol.append({"clause": "C11.resimulation", "signature": f"C11.full-size-data@{feat}", "detail": {"island": isl, "pair": i}})
                            break
                        want_sel = want_full[st, sy, sx]
                        if simd[isl, i].shape != want_sel.shape or not np.allclose(simd[isl, i], want_sel, rtol=1e-12, atol=0.0):
                            viol.append({"clause": "C11.resimulation", "signature": f"C11.simulated-data@{feat}", "detail": {"island": isl, "pair": i, "shape": list(simd[isl, i].shape), "expected_shape": list(want_sel.shape)}})
                            break
                        want_t = targets[i][tt, ty, tx] if multi else targets[i][ty, tx]
                        if np.squeeze(tgt[i]).shape != np.squeeze(want_t).shape or not np.allclose(np.squeeze(tgt[i]), np.squeeze(want_t)):
                            viol.append({"clause": "C11.resimulation", "signature": f"C11.target-data@{feat}", "detail": {"pair": i}})
                            break
                    if viol:
                        break
            except Exception as exc:  # noqa: BLE001
                viol.append({"clause": "C11.resimulation", "signature": f"C11.simulated-data-raises:{type(exc).__name__}@{feat}", "detail": repr(exc)[:400]})
        if not viol:
            c10.direct_calls(s2 if kind != "none" else scn, viol, stats, check_fitness=(kind != "none"))
    seen, uniq = set(), []
    for v in viol:
        if v["signature"] not in seen:
            seen.add(v["signature"])
            uniq.append(v)
    key = hashlib.sha256(engine.jdump([kind, bool(m.get("weights")), m.get("weights_file"), m["n_targets"], multi, m["fitness"], m["num_islands"], m["num_evolutions"], m["result_type"]]).encode()).hexdigest()[:16]
    rr = m.get("result_fit_range")
    proper = rr is not None and (rr[-3] - rr[-4] < scn["detector"]["row"] or rr[-1] - rr[-2] < scn["detector"]["col"])
    return {
        "violations": uniq,
        "stats": stats,
        "nontrivial": bool(proper or m.get("weights") or m.get("weights_file") or m["n_targets"] > 1),
        "key": key,
        "digest": (sim.get("digest") or "") + ":" + obs.hist_digest(rec["hist"]) + ":" + calib.result_digest(rec["tree"]),
        "sim_time": float(sim.get("now") or 0.0),
        "decisions": sim.get("decisions") or [],
        "sample": {"range_kind": kind, "result_fit_range": m["result_fit_range"], "target_fit_range": m["target_fit_range"], "weights": m.get("weights"), "weights_file": m.get("weights_file"), "pairs": m["n_targets"], "multi_readout": multi, "fitness": m["fitness"], "evaluations": nev},
    }
