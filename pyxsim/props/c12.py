"""C12 — a configuration file means what it says, and nonsense is refused."""

from __future__ import annotations

import copy
import hashlib
import math
import os
import random

import numpy as np

from .. import engine, expo, obs, probes, ref, world

ID = "C12"
LEVEL = "exploration"
FORCED_OK = False
MAX_REPORTS = 10
TECHNIQUE = "deterministic simulation with configuration-fault injection: generated documents (four detector types, exposure / observation, probe pipelines, numpy expressions for ranges and readout times) are written through the file seam and loaded with pyxel.load; the loaded objects are compared setting by setting with the document and run as twins of the Python-built objects (identical probe histories and results); faults: zero / two running modes or detectors, and out-of-range physical quantities pushed through four entry paths (constructor, YAML, attribute assignment, parameter sweep inside a simulated observation, where no probe of the offending run may execute)"
LEVEL_TEXT = "seeded exploration over documents and over (validated field x value class x entry path); apart from the file seam and the sweep path inside a simulated observation this is seeded scenario generation with a differential oracle - claimed at exploration level with that stated"
LEVEL_NOTE = "trusted: PyYAML to emit documents; the constructor is the reference for path agreement (a limit that exists on one path and not on another is a violation without hard-coding the limit); absolute anchors are only the ones named in the property statement"
RULE = (
    "kind drawn from {twin: document -> file -> pyxel.load -> compare every setting + run both twins; count: document with 0 or 2 running modes / detectors; range: one validated detector field x value class (in range, at a boundary, boundary +- 1 step, far outside, wrong sign) x four entry paths}; "
    "distinct = distinct (kind, detector type, mode, field, value class); non-trivial = a range scenario at or beyond a boundary, a count fault, or a twin with a numpy expression"
)
ASSUMPTIONS = [
    "anchors from the statement: quantum efficiency outside 0..1, temperature <= 0, rows/cols <= 0, ADC resolution outside 4..64 must be refused on every path",
    "for all other validated fields only path agreement is demanded (acceptance through YAML, attribute and sweep must equal acceptance by the constructor)",
    "in the sweep path the offending run must raise before any of its models executes",
]
COMPONENTS = {"real": ["pyxel.load / configuration builders", "Geometry / Environment / Characteristics / APDCharacteristics validation", "Readout and ParameterValues expression evaluation", "Observation sweep path"], "stub": []}
BUDGET = {"quick": {"n": 960, "wall": 100, "determinism": 4}, "thorough": {"n": 120000, "wall": 1500, "determinism": 12}}
REQUIRED_REACH = ["kind:derived", "derived_compared", "derived_refused_by_constructor", "derived_path:sweep", "derived_path:attribute", "derived_path:key", "derived:common_voltage", "kind:twin", "kind:count", "kind:range", "twin:exposure", "twin:observation", "numpy_expression", "count:no-mode", "count:two-modes", "count:no-detector", "count:two-detectors", "count:three-modes", "count:three-detectors", "path:sweep_rejects", "anchor_checked", "class:boundary", "class:beyond", "class:far", "class:sign"] + [f"type:{t}" for t in world.DET_TYPES]

# field -> (section, low, high, integer?)  -- ranges only used to *generate* interesting values
FIELDS = {
    "row": ("geometry", 1, 10000, True),
    "col": ("geometry", 1, 10000, True),
    "total_thickness": ("geometry", 0.0, 10000.0, False),
    "pixel_vert_size": ("geometry", 0.0, 1000.0, False),
    "pixel_horz_size": ("geometry", 0.0, 1000.0, False),
    "temperature": ("environment", 0.0, 1000.0, False),
    "quantum_efficiency": ("characteristics", 0.0, 1.0, False),
    "charge_to_volt_conversion": ("characteristics", 0.0, 100.0, False),
    "pre_amplification": ("characteristics", 0.0, 10000.0, False),
    "full_well_capacity": ("characteristics", 0.0, 1e7, False),
    "adc_bit_resolution": ("characteristics", 4, 64, True),
    "wavelength": ("environment", 0.0, 1.0e5, False),
}
SPEC_KEY = {"wavelength": "wavelength", "row": "row", "col": "col", "total_thickness": "total_thickness", "pixel_vert_size": "pixel_vert_size", "pixel_horz_size": "pixel_horz_size", "temperature": "temperature", "quantum_efficiency": "qe", "charge_to_volt_conversion": "charge_to_volt_conversion", "pre_amplification": "pre_amplification", "full_well_capacity": "full_well_capacity", "adc_bit_resolution": "adc_bit_resolution"}
CLASSES = ["inside", "boundary", "beyond", "far", "sign"]


def value_for(rng, field, cls):
    _sec, lo, hi, integer = FIELDS[field]
    step = 1 if integer else None
    if cls == "inside":
        v = rng.randint(lo + 1, min(hi - 1, lo + 40)) if integer else round(lo + (hi - lo) * rng.uniform(0.1, 0.9), 6)
    elif cls == "boundary":
        v = rng.choice([lo, hi])
    elif cls == "beyond":
        side = rng.choice(["lo", "hi"])
        if integer:
            v = lo - 1 if side == "lo" else hi + 1
        else:
            v = math.nextafter(lo, -math.inf) if side == "lo" else math.nextafter(hi, math.inf)
    elif cls == "far":
        v = (hi + 1) * 1000 if not integer else hi * 1000
    else:
        v = -rng.randint(1, 50) if integer else -round(rng.uniform(0.1, 50.0), 3)
    _ = step
    return v


def anchor_must_refuse(field, v):
    """Limits named in the property statement itself."""
    if field == "quantum_efficiency":
        return v < 0.0 or v > 1.0
    if field == "temperature":
        return v <= 0.0
    if field in ("row", "col"):
        return v <= 0
    if field == "adc_bit_resolution":
        return v < 4 or v > 64
    return None


def generate(rng, tier):
    kind = rng.choice(["twin", "twin", "count", "range", "range", "range"])
    det = world.gen_detector(rng)
    scn = {"kind": kind, "detector": det, "yaml_seed": rng.randrange(2**31)}
    if kind == "range" and rng.random() < 0.12:
        # bias-derived quantities of an APD after one of the three bias inputs was changed on the live detector
        det["type"] = "APD"
        det["avalanche_gain"] = rng.choice([2.0, 10.0, 50.0])
        det["pixel_reset_voltage"] = rng.choice([5.0, 8.0, 12.0])
        f = rng.choice(["avalanche_gain", "pixel_reset_voltage", "common_voltage", "common_voltage"])
        if f == "avalanche_gain":
            v = rng.choice([1.0, 1.5, 20.0, 400.0, 1000.0, 0.5, 2000.0])
        elif f == "common_voltage":
            v = rng.choice([-3.0, 0.0, 1.0, det["pixel_reset_voltage"] - 0.5, det["pixel_reset_voltage"] - 1.0, det["pixel_reset_voltage"] - 2.0, -20.0])
        else:
            v = rng.choice([3.0, 6.0, 9.0, 14.0, 30.0])
        scn.update({"kind": "derived", "field": f, "value": v, "path": rng.choice(["attribute", "key", "sweep"]), "warm": rng.random() < 0.5})
        scn["pipeline"] = {"charge_collection": [{"name": "p", "func": world.PROBE, "enabled": True, "arguments": {"tag": "p", "level": 1, "write": ["pixel"]}}], "charge_measurement": [{"name": "simple_measurement", "func": "pyxel.models.charge_measurement.simple_measurement", "enabled": True, "arguments": {}}]}
        return scn
    if kind == "range":
        fields = [f for f in FIELDS if not (det["type"] == "APD" and f in ("charge_to_volt_conversion", "pre_amplification"))]
        scn["field"] = rng.choice(fields)
        if scn["field"] == "wavelength":
            det["wavelength"] = rng.choice([450.0, 600.0, 2200.0])
        scn["cls"] = rng.choice(CLASSES)
        scn["value"] = value_for(rng, scn["field"], scn["cls"])
        scn["pipeline"] = {"charge_collection": [{"name": "p", "func": world.PROBE, "enabled": True, "arguments": {"tag": "p", "level": 1, "write": ["pixel"]}}]}
        return scn
    scn["pipeline"] = world.gen_pipeline(rng, max_per_group=2, group_p=0.4, free_args=2, p_disabled=0.2)
    if not any(m.get("enabled", True) for _, m in world.all_models(scn)):
        world.all_models(scn)[0][1]["enabled"] = True
    mode_kind = rng.choice(["exposure", "observation"])
    times_expr = rng.random() < 0.4
    if times_expr:
        expr, vals = rng.choice([("numpy.linspace(1, 5, 3)", [1.0, 3.0, 5.0]), ("numpy.arange(2, 8, 2)", [2, 4, 6]), ("numpy.array([0.5, 4])", [0.5, 4.0])])
        scn["readout"] = {"times": expr, "start_time": 0.0, "non_destructive": rng.random() < 0.5}
        scn["readout_values"] = vals
    else:
        scn["readout"] = world.gen_times(rng, nmax=3)
        scn["readout_values"] = scn["readout"]["times"]
    if mode_kind == "exposure":
        scn["mode"] = {"kind": "exposure", "pipeline_seed": rng.choice([None, 1234])}
    else:
        rd = dict(scn["readout"])
        tmp = dict(scn, readout=dict(rd, times=list(scn["readout_values"])), mode={"kind": "observation", "parameters": []})
        scn["mode"] = {"kind": "observation", "obs_mode": rng.choice(["product", "sequential"]), "with_dask": False, "pipeline_seed": None, "parameters": obs.gen_parameters(rng, tmp, allow_vec=False, max_runs=6)}
    if kind == "count":
        scn["count_fault"] = rng.choice(["no-mode", "two-modes", "no-detector", "two-detectors", "three-modes", "three-detectors"])
    return scn


def shrink(scn):
    if scn["kind"] in ("range", "derived"):
        return
    for g, ms in scn["pipeline"].items():
        for i in range(len(ms or [])):
            c = copy.deepcopy(scn)
            del c["pipeline"][g][i]
            if not c["pipeline"][g]:
                del c["pipeline"][g]
            if any(m.get("enabled", True) for _, m in world.all_models(c)) and not any(f".{ms[i]['name']}." in p["key"] for p in c["mode"].get("parameters", [])):
                yield c


def doc_for(scn, rng):
    s = {"detector": scn["detector"], "pipeline": scn["pipeline"], "readout": scn["readout"], "mode": scn["mode"]}
    return world.to_yaml_dict(s, rng)


def compare_settings(scn, cfg, viol):
    """Every setting of the loaded objects equals the document."""
    det, d = cfg.detector, scn["detector"]
    exp_geo = world._geo_kwargs(d)
    for k, v in exp_geo.items():
        got = getattr(det.geometry, "_" + k)
        if got != v:
            viol.append({"clause": "C12.settings", "signature": f"C12.setting-differs@geometry.{k}", "detail": {"document": v, "loaded": got}})
    if det.environment._temperature != d.get("temperature"):
        viol.append({"clause": "C12.settings", "signature": "C12.setting-differs@environment.temperature", "detail": {"document": d.get("temperature"), "loaded": det.environment._temperature}})
    for k, v in world._char_kwargs(d).items():
        got = getattr(det.characteristics, "_" + k, None)
        if k == "adc_voltage_range":
            ok = got is not None and list(got) == list(v)
        elif k in ("avalanche_gain", "pixel_reset_voltage", "roic_gain"):
            got = getattr(det.characteristics, k)
            ok = got == v
        else:
            ok = got == v
        if not ok:
            viol.append({"clause": "C12.settings", "signature": f"C12.setting-differs@characteristics.{k}", "detail": {"document": v, "loaded": got}})
    if type(det).__name__ != d["type"]:
        viol.append({"clause": "C12.settings", "signature": "C12.detector-type", "detail": {"document": d["type"], "loaded": type(det).__name__}})
    # pipeline
    for g in ref.CANONICAL_GROUPS:
        grp = getattr(cfg.pipeline, g)
        want = scn["pipeline"].get(g) or []
        have = list(grp.models) if grp else []
        if [m.name for m in have] != [m["name"] for m in want]:
            viol.append({"clause": "C12.settings", "signature": "C12.pipeline-models", "detail": {"group": g, "document": [m["name"] for m in want], "loaded": [m.name for m in have]}})
            continue
        for mf, mj in zip(have, want):
            if mf.enabled != mj.get("enabled", True) or mf._func_name != mj["func"] or not expo.same_args(dict(mf.arguments), mj.get("arguments") or {}):
                viol.append({"clause": "C12.settings", "signature": "C12.model-settings", "detail": {"model": mj["name"], "document": expo.norm(mj), "loaded": {"enabled": mf.enabled, "func": mf._func_name, "arguments": expo.norm(dict(mf.arguments))}}})
    # readout: expressions evaluated to the numbers they denote
    ro = cfg.running_mode.readout
    if [float(t) for t in ro.times] != [float(t) for t in scn["readout_values"]] or float(ro.start_time) != float(scn["readout"].get("start_time", 0.0)) or bool(ro.non_destructive) != bool(scn["readout"].get("non_destructive", False)):
        viol.append({"clause": "C12.settings", "signature": "C12.readout" + ("+expression" if isinstance(scn["readout"]["times"], str) else ""), "detail": {"document": scn["readout"], "denotes": scn["readout_values"], "loaded": [float(t) for t in ro.times]}})
    m = scn["mode"]
    if m["kind"] == "observation":
        pm = cfg.running_mode.parameter_mode
        if type(pm).__name__.lower().replace("mode", "") != m["obs_mode"]:
            viol.append({"clause": "C12.settings", "signature": "C12.observation-mode", "detail": {"document": m["obs_mode"], "loaded": type(pm).__name__}})
        want = [(p["key"], ref.param_values(p), p.get("enabled", True)) for p in m["parameters"]]
        have = [(p.key, [x for x in p] , p.enabled) for p in pm.parameters]
        if len(want) != len(have) or any(w[0] != h[0] or w[2] != h[2] or expo.norm(w[1]) != expo.norm(h[1]) for w, h in zip(want, have)):
            viol.append({"clause": "C12.settings", "signature": "C12.observation-parameters", "detail": {"document": expo.norm(want), "loaded": expo.norm(have)}})
        if bool(cfg.running_mode.with_dask) != bool(m.get("with_dask", False)):
            viol.append({"clause": "C12.settings", "signature": "C12.with_dask", "detail": None})
    if cfg.running_mode.pipeline_seed != m.get("pipeline_seed"):
        viol.append({"clause": "C12.settings", "signature": "C12.pipeline_seed", "detail": {"document": m.get("pipeline_seed"), "loaded": cfg.running_mode.pipeline_seed}})


DERIVED = ("avalanche_gain", "pixel_reset_voltage", "common_voltage", "avalanche_bias", "node_capacitance", "charge_to_volt_conversion", "system_gain")


def _derived_of(ch):
    out = {}
    for n in DERIVED:
        try:
            out[n] = float(getattr(ch, n))
        except Exception as exc:  # noqa: BLE001
            out[n] = "raises:" + type(exc).__name__
    return out


def _signal_of(det, pipe_spec):
    import pyxel
    from pyxel.exposure import Exposure

    try:
        tree = pyxel.run_mode(mode=Exposure(readout=world.build_readout({"times": [1.0]})), detector=det, pipeline=world.build_pipeline(pipe_spec), with_inherited_coords=True)
        return np.asarray(tree["/bucket/signal"].values, dtype=float), None
    except Exception as exc:  # noqa: BLE001
        return None, exc


def _derived(scn, viol, stats, h):
    """An APD whose bias input was changed afterwards equals, in every bias-derived quantity and in what it simulates,
    the APD constructed with that input; what the constructor refuses is not simulated either."""
    import pyxel
    from pyxel.observation import Observation, ParameterValues
    from pyxel.pipelines import Processor

    spec, f, x, path = scn["detector"], scn["field"], scn["value"], scn["path"]
    stats["derived:" + f] = 1
    stats["derived_path:" + path] = 1
    det = world.build_detector(spec)
    ch = det.characteristics
    if scn.get("warm"):
        _derived_of(ch)  # the quantities were already asked for once before the change
        stats["derived_read_before_change"] = 1
    common0 = float(ch.common_voltage)
    tw = dict(spec)
    if f == "avalanche_gain":
        tw["avalanche_gain"] = x
    elif f == "common_voltage":
        tw.pop("avalanche_gain")
        tw["common_voltage"] = x
    else:
        tw.pop("avalanche_gain")
        tw["common_voltage"] = common0
        tw["pixel_reset_voltage"] = x
    try:
        twin = world.build_detector(tw)
        twin_exc = None
    except Exception as exc:  # noqa: BLE001
        twin, twin_exc = None, exc
    feat = f"{f}+{path}"
    key = f"detector.characteristics.{f}"
    got_sig, run_exc, set_exc = None, None, None
    if path == "sweep":
        probes.reset()
        try:
            mode = Observation(parameters=[ParameterValues(key=key, values=[x])], readout=world.build_readout({"times": [1.0]}))
            tree = pyxel.run_mode(mode=mode, detector=det, pipeline=world.build_pipeline(scn["pipeline"]), with_inherited_coords=True)
            got_sig = np.asarray(tree["/bucket/signal"].values, dtype=float).reshape(-1, spec["row"], spec["col"])[-1:]
        except Exception as exc:  # noqa: BLE001
            run_exc = exc
    else:
        try:
            if path == "attribute":
                setattr(ch, f, x)
            else:
                Processor(detector=det, pipeline=world.build_pipeline(scn["pipeline"])).set(key, x)
        except Exception as exc:  # noqa: BLE001
            set_exc = exc
        if set_exc is None:
            dv = _derived_of(ch)
            got_sig, run_exc = _signal_of(det, scn["pipeline"])
    refused = set_exc is not None or run_exc is not None
    if twin is None:
        stats["derived_refused_by_constructor"] = 1
        if not refused:
            viol.append({"clause": "C12.limits", "signature": f"C12.simulated-what-the-constructor-refuses@{feat}", "detail": {"value": x, "constructor": repr(twin_exc)[:200]}})
    else:
        want_sig, want_exc = _signal_of(twin, scn["pipeline"])
        if want_exc is not None:
            stats["derived_refused_at_run"] = 1
            if not refused:
                viol.append({"clause": "C12.limits", "signature": f"C12.simulated-what-a-fresh-detector-refuses@{feat}", "detail": {"value": x, "fresh": repr(want_exc)[:200]}})
        elif refused:
            viol.append({"clause": "C12.limits", "signature": f"C12.paths-disagree@{feat}", "detail": {"value": x, "refused_with": repr(set_exc or run_exc)[:200]}})
        else:
            stats["derived_compared"] = 1
            if path != "sweep":
                tv = _derived_of(twin.characteristics)
                diff = [n for n in DERIVED if (dv[n] != tv[n]) and not (isinstance(dv[n], float) and isinstance(tv[n], float) and abs(dv[n] - tv[n]) <= 1e-12 * max(1.0, abs(tv[n])))]
                if diff:
                    viol.append({"clause": "C12.settings", "signature": f"C12.derived-quantity-differs@{feat}", "detail": {"value": x, "differing": {n: [dv[n], tv[n]] for n in diff}}})
            if got_sig is not None and want_sig is not None and not np.allclose(got_sig.reshape(want_sig.shape) if got_sig.size == want_sig.size else got_sig, want_sig, rtol=1e-12, atol=0.0):
                viol.append({"clause": "C12.twins", "signature": f"C12.changed-detector-simulates-differently@{feat}", "detail": {"value": x, "signal_changed": float(np.ravel(got_sig)[0]), "signal_fresh": float(np.ravel(want_sig)[0])}})
    h.update(repr((f, x, path, refused, twin is None)).encode())


def execute(scn):
    import pyxel
    import yaml
    from pyxel.observation import Observation, ParameterValues

    world.reset_process_state()
    viol, stats = [], {}
    kind = scn["kind"]
    stats["kind:" + kind] = 1
    dtype = scn["detector"]["type"]
    stats["type:" + dtype] = 1
    h = hashlib.sha256()
    nontrivial = False
    with world.Scratch() as scratch:
        if kind in ("twin", "count"):
            doc = doc_for(scn, random.Random(scn["yaml_seed"]))
            if kind == "count":
                cf = scn["count_fault"]
                stats["count:" + cf] = 1
                nontrivial = True
                mk = scn["mode"]["kind"]
                dk = world.DET_KEY[dtype]
                if cf == "no-mode":
                    doc.pop(mk)
                elif cf == "two-modes":
                    other = "observation" if mk == "exposure" else "exposure"
                    doc[other] = {"readout": {"times": [1.0]}} if other == "exposure" else {"readout": {"times": [1.0]}, "parameters": [{"key": "detector.characteristics.quantum_efficiency", "values": [0.5]}]}
                elif cf == "three-modes":
                    for other in ("exposure", "observation", "calibration"):
                        if other in doc:
                            continue
                        if other == "exposure":
                            doc[other] = {"readout": {"times": [1.0]}}
                        elif other == "observation":
                            doc[other] = {"readout": {"times": [1.0]}, "parameters": [{"key": "detector.characteristics.quantum_efficiency", "values": [0.5]}]}
                        else:
                            doc[other] = {
                                "result_type": "pixel", "result_fit_range": [0, 2, 0, 2], "target_data_path": ["target.npy"], "target_fit_range": [0, 2, 0, 2],
                                "fitness_function": {"func": "pyxel.calibration.fitness.sum_of_abs_residuals"}, "algorithm": {"type": "sade", "generations": 1, "population_size": 7},
                                "parameters": [{"key": "detector.characteristics.quantum_efficiency", "values": "_", "boundaries": [0.1, 0.9]}],
                            }
                elif cf == "three-detectors":
                    others = [k9 for k9 in ("ccd_detector", "cmos_detector", "mkid_detector") if k9 != dk][:2]
                    for other in others:
                        doc[other] = copy.deepcopy(doc[dk])
                        if dtype == "APD":
                            doc[other]["characteristics"] = {"quantum_efficiency": 0.5}
                elif cf == "no-detector":
                    doc.pop(dk)
                else:
                    other = "cmos_detector" if dk != "cmos_detector" else "ccd_detector"
                    doc[other] = copy.deepcopy(doc[dk])
                    if dtype == "APD":
                        doc[other]["characteristics"] = {"quantum_efficiency": 0.5}
            path = os.path.join(scratch, "config.yaml")
            with open(path, "w") as fh:
                fh.write(yaml.safe_dump(doc, sort_keys=False))
            try:
                cfg = pyxel.load(path)
                exc = None
            except Exception as e:  # noqa: BLE001
                cfg, exc = None, e
            if kind == "count":
                if exc is None:
                    viol.append({"clause": "C12.count", "signature": f"C12.accepted@{scn['count_fault']}", "detail": {"keys": sorted(doc)}})
                h.update(repr(type(exc).__name__).encode())
            elif exc is not None:
                viol.append({"clause": "C12.loads", "signature": f"C12.valid-document-refused:{type(exc).__name__}", "detail": {"exc": repr(exc)[:400]}})
            else:
                stats["twin:" + scn["mode"]["kind"]] = 1
                if isinstance(scn["readout"]["times"], str) or any(isinstance(p["values"], str) for p in scn["mode"].get("parameters", [])):
                    stats["numpy_expression"] = 1
                    nontrivial = True
                compare_settings(scn, cfg, viol)
                if not viol:
                    # run both twins: identical histories and results
                    s_py = {"detector": scn["detector"], "pipeline": scn["pipeline"], "readout": dict(scn["readout"]), "mode": scn["mode"]}
                    probes.reset()
                    ta = ea = None
                    try:
                        ta = pyxel.run_mode(mode=cfg.running_mode, detector=cfg.detector, pipeline=cfg.pipeline, with_inherited_coords=True)
                    except Exception as e:  # noqa: BLE001
                        ea = e
                    ha = list(probes.HIST)
                    probes.reset()
                    tb = eb = None
                    try:
                        mode_b, det_b, pipe_b = world.build_python(s_py)
                        tb = pyxel.run_mode(mode=mode_b, detector=det_b, pipeline=pipe_b, with_inherited_coords=True)
                    except Exception as e:  # noqa: BLE001
                        eb = e
                    hb = list(probes.HIST)
                    if (ea is None) != (eb is None):
                        viol.append({"clause": "C12.twins", "signature": "C12.twins-outcome", "detail": {"yaml": repr(ea)[:200], "python": repr(eb)[:200]}})
                    elif ea is None:
                        if obs.hist_digest(ha) != obs.hist_digest(hb):
                            viol.append({"clause": "C12.twins", "signature": f"C12.twins-history@{scn['mode']['kind']}", "detail": expo.compare_events(expo.events_of(ha), expo.events_of(hb))})
                        elif obs.tree_digest(ta) != obs.tree_digest(tb):
                            viol.append({"clause": "C12.twins", "signature": f"C12.twins-result@{scn['mode']['kind']}", "detail": "results of the YAML-built and the Python-built objects differ"})
                    h.update((obs.hist_digest(ha) + obs.tree_digest(ta)).encode())
        elif kind == "derived":
            nontrivial = True
            _derived(scn, viol, stats, h)
        else:  # range
            field, v, cls = scn["field"], scn["value"], scn["cls"]
            stats["class:" + cls] = 1
            if cls != "inside":
                nontrivial = True
            sec = FIELDS[field][0]
            spec = dict(scn["detector"])
            spec[SPEC_KEY[field]] = v
            acc = {}
            # 1 constructor (reference)
            try:
                world.build_detector(spec)
                acc["constructor"] = True
            except Exception:  # noqa: BLE001
                acc["constructor"] = False
            # 2 YAML
            s = {"detector": spec, "pipeline": scn["pipeline"], "readout": {"times": [1.0]}, "mode": {"kind": "exposure"}}
            path = os.path.join(scratch, "config.yaml")
            with open(path, "w") as fh:
                fh.write(world.to_yaml(s))
            try:
                pyxel.load(path)
                acc["yaml"] = True
            except Exception:  # noqa: BLE001
                acc["yaml"] = False
            # 3 attribute assignment on a valid detector
            det = world.build_detector(scn["detector"])
            prev = getattr(getattr(det, sec), "_" + field)
            try:
                setattr(getattr(det, sec), field, v)
                acc["attribute"] = True
            except Exception:  # noqa: BLE001
                acc["attribute"] = False
                now = getattr(getattr(det, sec), "_" + field)
                if now != prev:
                    # a refused change must not take effect (the detector is reused afterwards)
                    viol.append({"clause": "C12.limits", "signature": f"C12.refused-value-sticks@{field}+attribute", "detail": {"previous": prev, "refused": v, "now_holds": now}})
            # the same through a dotted key (what sweeps, calibration and overrides use)
            from pyxel.pipelines import Processor

            det_k = world.build_detector(scn["detector"])
            proc_k = Processor(detector=det_k, pipeline=world.build_pipeline(scn["pipeline"]))
            prev_k = getattr(getattr(det_k, sec), "_" + field)
            try:
                proc_k.set(f"detector.{sec}.{field}", v)
            except Exception:  # noqa: BLE001
                now_k = getattr(getattr(det_k, sec), "_" + field)
                if now_k != prev_k:
                    viol.append({"clause": "C12.limits", "signature": f"C12.refused-value-sticks@{field}+key", "detail": {"previous": prev_k, "refused": v, "now_holds": now_k}})
            # 4 parameter sweep inside an observation: the offending run must not execute any model
            det4 = world.build_detector(scn["detector"])
            pipe4 = world.build_pipeline(scn["pipeline"])
            good = getattr(getattr(det4, sec), "_" + field)
            key = f"detector.{sec}.{field}"
            probes.reset()
            try:
                mode4 = Observation(parameters=[ParameterValues(key=key, values=[good, v])], readout=world.build_readout({"times": [1.0]}))
                pyxel.run_mode(mode=mode4, detector=det4, pipeline=pipe4, with_inherited_coords=True)
                acc["sweep"] = True
            except Exception:  # noqa: BLE001
                acc["sweep"] = False
            runs = len({e["run"] for e in probes.HIST})
            if not acc["sweep"]:
                stats["path:sweep_rejects"] = 1
                if runs > 1 and not (field in ("row", "col") and acc["constructor"]):
                    viol.append({"clause": "C12.sweep", "signature": f"C12.sweep-ran-offending-run@{field}", "detail": {"value": v, "runs_executed": runs}})
            must = anchor_must_refuse(field, v)
            if must is not None:
                stats["anchor_checked"] = 1
            for pth, ok in acc.items():
                if must is True and ok:
                    viol.append({"clause": "C12.limits", "signature": f"C12.out-of-range-accepted@{field}+{pth}", "detail": {"value": v, "accepted_by": {k: a for k, a in acc.items()}}})
                elif must is not True and ok != acc["constructor"]:
                    if pth == "sweep" and field in ("row", "col") and acc["constructor"]:
                        # the containers keep the shape the detector was built with: sweeping the array size is
                        # not a supported way to resize a detector, only the refusal of nonsense is demanded there
                        continue
                    viol.append({"clause": "C12.limits", "signature": f"C12.paths-disagree@{field}+{pth}", "detail": {"value": v, "class": cls, "accepted_by": acc}})
            h.update(repr(sorted(acc.items())).encode())
    seen, uniq = set(), []
    for v2 in viol:
        if v2["signature"] not in seen:
            seen.add(v2["signature"])
            uniq.append(v2)
    return {
        "violations": uniq,
        "stats": stats,
        "nontrivial": nontrivial,
        "key": hashlib.sha256(engine.jdump([kind, dtype, scn.get("mode", {}).get("kind"), scn.get("field"), scn.get("cls"), scn.get("count_fault"), sorted((scn.get("pipeline") or {}).keys())]).encode()).hexdigest()[:16],
        "digest": h.hexdigest()[:16],
        "sim_time": 0.0,
        "decisions": [],
        "sample": {"kind": kind, "detector": dtype, "field": scn.get("field"), "value": scn.get("value"), "class": scn.get("cls"), "count_fault": scn.get("count_fault"), "mode": (scn.get("mode") or {}).get("kind")},
    }


_ = np
