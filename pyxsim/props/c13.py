"""C13 — data buckets only ever hold arrays of the detector's shape and unit type."""

from __future__ import annotations

import copy
import hashlib
import warnings

import numpy as np

from .. import engine, world

ID = "C13"
LEVEL = "exploration"
FORCED_OK = False
MAX_REPORTS = 12
TECHNIQUE = "deterministic simulation of container histories: a seeded operation-and-fault sequence (assign / update / += / + / empty / read / compare / detector-level assignment, with rejected assignments as the injected fault) is applied to the real containers of two detectors next to a 'None or ndarray' reference model; invariants are checked after every operation, failing sequences are shrunk and replayed"
LEVEL_TEXT = "seeded exploration of operation histories over photon (2-D and multi-wavelength), pixel, signal, image and phase containers on all four detector types; every numpy dtype, wrong shapes, non-arrays, negative / NaN / huge values"
LEVEL_NOTE = "trusted: the reference model (valid = numpy array of the detector's shape with an allowed dtype); for += on a filled container the expected content is the same numpy in-place operation applied to the model's copy. No schedule dimension exists for this property: the fault dimension is the rejected operation inside a history"
RULE = (
    "sequence of 4..14 operations on the containers of detectors A, B (same geometry) and C (other geometry): set(value spec), update, iadd/add, empty, read, compare(x, y) in both directions, detector-level assignment; "
    "distinct = distinct operation-kind sequences; non-trivial = at least one rejected (invalid) operation and one comparison or read after it"
)
ASSUMPTIONS = [
    "'empty' for Pixel after empty() is an all-zero array (the class resets to zeros); update(None) is the truly empty state",
    "not demanded (statement silent): non-negativity after += of a negative operand; aliasing of the caller's array",
    "a read of an empty container must raise an Exception whose message is non-empty",
    "equality model: same container kind and same detector shape and (both empty or numpy.array_equal of contents)",
]
COMPONENTS = {"real": ["pyxel.data_structure containers", "Detector container properties"], "stub": []}
BUDGET = {"quick": {"n": 3200, "wall": 100, "determinism": 4}, "thorough": {"n": 1600000, "wall": 1500, "determinism": 12}}
REQUIRED_REACH = ["op:set", "op:update", "op:iadd", "op:add", "op:empty", "op:read", "op:compare", "op:det_assign", "rejected_ops", "compare_empty_vs_filled", "iadd_on_empty", "photon3d_ops", "phase_ops"]

FLOATS = ("float16", "float32", "float64")
UINTS = ("uint8", "uint16", "uint32", "uint64")
ALL_DTYPES = ("bool", "int8", "int16", "int32", "int64", "uint8", "uint16", "uint32", "uint64", "float16", "float32", "float64", "complex64", "object", "U3")
ALLOWED = {"photon": FLOATS, "pixel": FLOATS, "signal": FLOATS, "phase": FLOATS, "image": UINTS}
SHAPES = ("ok", "ok", "ok", "t", "row+1", "col-1", "1d", "3d", "0d", "bcast-row", "empty")
FILLS = ("pos", "pos", "neg", "nan", "huge", "zero", "mixed", "nan+neg")
KINDS = ("ndarray", "ndarray", "ndarray", "list", "none", "scalar", "dataarray3", "dataarray3-bad")


def gen_value(rng, container):
    good = rng.random() < 0.5
    if good:
        dt = rng.choice(ALLOWED[container])
        kind = "dataarray3" if (container == "photon" and rng.random() < 0.3) else "ndarray"
        return {"kind": kind, "shape": "ok", "dtype": dt, "fill": rng.choice(("pos", "pos", "zero", "mixed", "neg", "nan", "nan+neg") if container != "image" else ("pos", "zero", "huge")), "salt": rng.randint(0, 9)}
    return {"kind": rng.choice(KINDS), "shape": rng.choice(SHAPES), "dtype": rng.choice(ALL_DTYPES), "fill": rng.choice(FILLS), "salt": rng.randint(0, 9)}


def generate(rng, tier):
    dtype = rng.choice(world.DET_TYPES)
    rows, cols = rng.randint(2, 4), rng.randint(2, 4)
    conts = ["photon", "pixel", "signal", "image"] + (["phase"] if dtype == "MKID" else [])
    ops = []
    for _ in range(rng.randint(4, 14)):
        c = rng.choice(conts)
        d = rng.choice(["A", "A", "B"])
        r = rng.random()
        if r < 0.3:
            ops.append({"op": "set", "det": d, "c": c, "value": gen_value(rng, c), "via": rng.choice(["array", "array", "array_2d"]) if c == "photon" else "array"})
        elif r < 0.38 and c != "photon":
            ops.append({"op": "update", "det": d, "c": c, "value": gen_value(rng, c)})
        elif r < 0.55:
            v = gen_value(rng, c)
            if c != "photon" and v["kind"].startswith("dataarray"):
                v["kind"] = "ndarray"  # xarray operands belong to the (multi-wavelength) photon container only
            ops.append({"op": rng.choice(["iadd", "add"]), "det": d, "c": c, "value": v})
        elif r < 0.63:
            ops.append({"op": "empty", "det": d, "c": c})
        elif r < 0.75:
            ops.append({"op": "read", "det": d, "c": c, "how": rng.choice(["array", "asarray", "dtype", "shape", "array_3d" if c == "photon" else "array"])})
        elif r < 0.92:
            ops.append({"op": "compare", "x": [rng.choice(["A", "B", "C"]), c], "y": [rng.choice(["A", "B", "C"]), rng.choice(conts) if rng.random() < 0.2 else c]})
        else:
            # detector-level assignment exists for photon, pixel, signal and image
            ops.append({"op": "det_assign", "det": d, "c": c if c != "phase" else "pixel", "src": rng.choice(["A", "B", "C"])})
    return {"det_type": dtype, "rows": rows, "cols": cols, "ops": ops}


def shrink(scn):
    for i in range(len(scn["ops"])):
        c = copy.deepcopy(scn)
        del c["ops"][i]
        if c["ops"]:
            yield c
    for i, o in enumerate(scn["ops"]):
        v = o.get("value")
        if v and v.get("fill") not in ("pos",):
            c = copy.deepcopy(scn)
            c["ops"][i]["value"]["fill"] = "pos"
            yield c


def materialise(v, rows, cols):
    import xarray as xr

    kind = v["kind"]
    if kind == "none":
        return None
    if kind == "scalar":
        return 3.5
    shp = {
        "ok": (rows, cols), "t": (cols, rows) if rows != cols else (rows + 1, cols), "row+1": (rows + 1, cols), "col-1": (rows, max(1, cols - 1)) if cols > 1 else (rows, cols + 1),
        "1d": (rows * cols,), "3d": (2, rows, cols), "0d": (), "bcast-row": (1, cols), "empty": (0, cols),
    }[v["shape"]]
    n = int(np.prod(shp)) if shp else 1
    base = np.arange(n, dtype=float) + 1.0 + v["salt"]
    fill = v["fill"]
    if fill == "neg":
        base = -base
    elif fill == "nan":
        base[::2] = np.nan
    elif fill == "huge":
        base = base * 1e30
    elif fill == "zero":
        base = base * 0.0
    elif fill == "mixed":
        base[::2] *= -1.0
    elif fill == "nan+neg":
        base[1::2] *= -1.0
        base[::3] = np.nan
    dt = v["dtype"]
    with warnings.catch_warnings():
        warnings.simplefilter("ignore")
        if dt == "object":
            arr = base.astype(object)
        elif dt == "U3":
            arr = base.astype("U3")
        elif dt.startswith("uint") or dt.startswith("int") or dt == "bool":
            arr = np.nan_to_num(np.abs(base) if dt.startswith("uint") else base, nan=0.0, posinf=0.0, neginf=0.0)
            arr = np.clip(arr, np.iinfo(dt).min if dt != "bool" else 0, np.iinfo(dt).max if dt != "bool" else 1).astype(dt)
        else:
            arr = base.astype(dt)
    arr = arr.reshape(shp)
    if kind == "list":
        return arr.tolist()
    if kind in ("dataarray3", "dataarray3-bad"):
        if arr.ndim == 2:
            arr3 = np.stack([arr, arr + 1]) if arr.dtype.kind in "fiu" else np.stack([arr, arr])
        elif arr.ndim == 3:
            arr3 = arr
        else:
            return xr.DataArray(arr)
        if kind == "dataarray3":
            return xr.DataArray(arr3, dims=("wavelength", "y", "x"), coords={"wavelength": [500.0 + 10 * i for i in range(arr3.shape[0])]})
        return xr.DataArray(arr3, dims=("y", "wavelength", "x"))
    return arr


def valid_for(container, val, rows, cols):
    """Independent validity rule from the statement."""
    import xarray as xr

    if isinstance(val, xr.DataArray):
        if container != "photon":
            return False
        return val.ndim == 3 and val.dims == ("wavelength", "y", "x") and val.shape[1:] == (rows, cols) and str(val.dtype) in FLOATS and "wavelength" in val.coords
    if not isinstance(val, np.ndarray):
        return False
    return val.shape == (rows, cols) and str(val.dtype) in ALLOWED[container]


def get_c(det, c):
    return getattr(det, c)


def content(cont):
    """Public-API view: None (empty) / ndarray / DataArray."""
    import xarray as xr

    a = cont._array  # observer only: the public attributes raise on empty, which is itself checked by 'read'
    if a is None:
        return None
    return a.copy() if isinstance(a, (np.ndarray, xr.DataArray)) else a


def same(a, b):
    import xarray as xr

    if a is None or b is None:
        return a is None and b is None
    if isinstance(a, xr.DataArray) or isinstance(b, xr.DataArray):
        return isinstance(a, xr.DataArray) and isinstance(b, xr.DataArray) and a.shape == b.shape and bool(np.array_equal(a.values, b.values, equal_nan=True))
    a, b = np.asarray(a), np.asarray(b)
    if a.shape != b.shape or a.dtype != b.dtype:
        return False
    if a.dtype.kind in "OU":
        return bool(np.all(a == b))
    return bool(np.array_equal(a, b, equal_nan=True))


def _has_nan(a):
    if a is None:
        return False
    try:
        return bool(np.isnan(np.asarray(a, dtype=float)).any())
    except (TypeError, ValueError):
        return False


def check_invariant(cname, cont, rows, cols):
    import xarray as xr

    a = cont._array
    if a is None:
        return None
    if isinstance(a, xr.DataArray):
        if cname != "photon":
            return "holds a DataArray"
        if a.ndim != 3 or a.shape[1:] != (rows, cols) or str(a.dtype) not in FLOATS:
            return f"holds a DataArray of shape {a.shape} dtype {a.dtype}"
        return None
    if not isinstance(a, np.ndarray):
        return f"holds a {type(a).__name__}"
    if a.shape != (rows, cols):
        return f"holds an array of shape {a.shape}, detector is {(rows, cols)}"
    if str(a.dtype) not in ALLOWED[cname]:
        return f"holds dtype {a.dtype}"
    return None


def execute(scn):
    import xarray as xr

    warnings.filterwarnings("ignore")
    world.reset_process_state()
    rows, cols = scn["rows"], scn["cols"]
    spec = world.gen_detector(__import__("random").Random(1), types=(scn["det_type"],))
    spec.update({"row": rows, "col": cols})
    specC = dict(spec, row=rows + 1, col=cols + 2)
    dets = {"A": world.build_detector(spec), "B": world.build_detector(spec), "C": world.build_detector(specC)}
    shapes = {"A": (rows, cols), "B": (rows, cols), "C": (rows + 1, cols + 2)}
    conts = ["photon", "pixel", "signal", "image"] + (["phase"] if scn["det_type"] == "MKID" else [])
    model = {(d, c): None for d in dets for c in conts}
    # a little content on C so that cross-geometry assignment has something to offer
    dets["C"].pixel.array = np.ones(shapes["C"])
    model[("C", "pixel")] = np.ones(shapes["C"])
    dets["C"].photon.array = np.ones(shapes["C"])
    model[("C", "photon")] = np.ones(shapes["C"])
    viol, stats = [], {}
    h = hashlib.sha256()
    rejected_seen = False
    nontrivial = False

    def bad(clause, sig, detail):
        viol.append({"clause": clause, "signature": sig, "detail": detail})

    for k, op in enumerate(scn["ops"]):
        kind = op["op"]
        stats["op:" + kind] = stats.get("op:" + kind, 0) + 1
        if kind == "compare":
            (dx, cx), (dy, cy) = op["x"], op["y"]
            if cx not in conts or cy not in conts:
                continue
            X, Y = get_c(dets[dx], cx), get_c(dets[dy], cy)
            mx, my = model[(dx, cx)], model[(dy, cy)]
            exp = (cx == cy) and shapes[dx] == shapes[dy] and ((mx is None and my is None) or (mx is not None and my is not None and type(mx) is type(my) and mx.shape == my.shape and bool(np.array_equal(np.asarray(mx), np.asarray(my)))))
            if (mx is None) != (my is None):
                stats["compare_empty_vs_filled"] = 1
            res = []
            for P, Q in ((X, Y), (Y, X)):
                try:
                    res.append(bool(P == Q))
                except Exception as exc:  # noqa: BLE001
                    res.append(exc)
            feat = ("empty-vs-filled" if (mx is None) != (my is None) else ("both-empty" if mx is None else "both-filled")) + ("+photon" if "photon" in (cx, cy) else "") + ("+other-shape" if shapes[dx] != shapes[dy] else "") + ("+other-kind" if cx != cy else "")
            if any(isinstance(r, Exception) for r in res):
                bad("C13.eq-total", f"C13.eq-raises@{feat}", {"op": k, "result": [repr(r)[:120] for r in res]})
            elif res[0] != res[1]:
                bad("C13.eq-symmetric", f"C13.eq-symmetric@{feat}", {"op": k, "x==y": res[0], "y==x": res[1]})
            elif res[0] != exp and not _has_nan(mx) and not _has_nan(my):
                # (NaN == NaN is left open by the statement: only totality and symmetry are demanded then)
                bad("C13.eq-value", f"C13.eq-value@{feat}", {"op": k, "got": res[0], "expected": exp})
            if rejected_seen:
                nontrivial = True
            h.update(repr((k, "cmp", [r if isinstance(r, bool) else "exc" for r in res])).encode())
            continue
        d, c = op["det"], op["c"]
        if c not in conts:
            continue
        det, cont = dets[d], get_c(dets[d], c)
        if c == "phase":
            stats["phase_ops"] = 1
        prev = model[(d, c)]
        if kind == "read":
            how = op["how"]
            try:
                if how == "array":
                    got = cont.array
                elif how == "array_3d":
                    got = cont.array_3d
                elif how == "asarray":
                    got = np.asarray(cont)
                elif how == "dtype":
                    got = cont.dtype
                else:
                    got = cont.shape
                raised = None
            except Exception as exc:  # noqa: BLE001
                got, raised = None, exc
            if prev is None and how in ("array", "array_3d", "asarray", "dtype"):
                if raised is None:
                    bad("C13.read-empty", f"C13.read-empty-returns@{c}+{how}", {"op": k, "got": repr(got)[:100]})
                elif not str(raised).strip():
                    bad("C13.read-empty", f"C13.read-empty-no-message@{c}+{how}", {"op": k, "exc": repr(raised)})
            elif prev is not None and raised is None and how in ("array", "asarray", "array_3d"):
                if not same(np.asarray(got) if not isinstance(got, xr.DataArray) else got, prev if not (how == "asarray" and isinstance(prev, xr.DataArray)) else prev.values):
                    if not (how == "asarray" and isinstance(prev, xr.DataArray)):
                        bad("C13.read-value", f"C13.read-value@{c}+{how}", {"op": k})
            elif prev is not None and raised is not None:
                kind3 = isinstance(prev, xr.DataArray)
                legit = (how == "array" and kind3) or (how == "array_3d" and not kind3) or (how == "asarray" and kind3)
                if not legit:
                    bad("C13.read-filled", f"C13.read-filled-raises@{c}+{how}", {"op": k, "exc": repr(raised)[:200]})
            if rejected_seen:
                nontrivial = True
            h.update(repr((k, "read", how, type(raised).__name__ if raised else "ok")).encode())
            continue
        if kind == "empty":
            try:
                cont.empty()
            except Exception as exc:  # noqa: BLE001
                bad("C13.empty", f"C13.empty-raises@{c}", repr(exc)[:200])
            model[(d, c)] = np.zeros(shapes[d]) if c == "pixel" else None
        elif kind in ("set", "update"):
            val = materialise(op["value"], rows, cols)
            if isinstance(val, xr.DataArray):
                stats["photon3d_ops"] = 1
            try:
                if kind == "update":
                    cont.update(val)
                elif isinstance(val, xr.DataArray) and c == "photon":
                    cont.array_3d = val
                elif op.get("via") == "array_2d":
                    cont.array_2d = val
                else:
                    cont.array = val
                raised = None
            except Exception as exc:  # noqa: BLE001
                raised = exc
            eff = val
            if kind == "update" and val is not None and not isinstance(val, (np.ndarray, xr.DataArray)):
                try:
                    eff = np.asarray(val)
                except Exception:  # noqa: BLE001
                    eff = val
            if kind == "update" and val is None:
                ok = True
                newm = None
            else:
                ok = valid_for(c, eff, rows, cols)
                newm = eff
                if ok and c == "photon":
                    newm = eff.clip(min=0.0) if isinstance(eff, xr.DataArray) else np.where(eff < 0, 0.0, eff).astype(eff.dtype)
            if ok:
                if raised is not None:
                    bad("C13.valid-accepted", f"C13.valid-rejected@{c}+{kind}", {"op": k, "exc": repr(raised)[:200], "value": op["value"]})
                else:
                    newm = None if newm is None else newm.copy()  # the container may keep the caller's array: never alias the model
                    model[(d, c)] = newm
                    cur = content(cont)
                    if not same(cur, newm):
                        if c == "photon" and cur is not None and bool(np.any(np.asarray(cur) < 0)):
                            bad("C13.photon-nonneg", "C13.photon-negative-stored", {"op": k})
                        else:
                            bad("C13.set-value", f"C13.set-value@{c}+{kind}", {"op": k, "value": op["value"]})
            else:
                rejected_seen = True
                stats["rejected_ops"] = stats.get("rejected_ops", 0) + 1
                if raised is None:
                    bad("C13.invalid-rejected", f"C13.invalid-accepted@{c}+{kind}+{op['value']['kind']}+{op['value']['shape']}+{'dtype-ok' if str(getattr(eff, 'dtype', '')) in ALLOWED[c] else 'dtype-bad'}", {"op": k, "value": op["value"]})
                    model[(d, c)] = content(cont)
                elif not same(content(cont), prev):
                    bad("C13.rejected-untouched", f"C13.rejected-untouched@{c}+{kind}", {"op": k, "value": op["value"]})
                    model[(d, c)] = content(cont)
        elif kind in ("iadd", "add"):
            val = materialise(op["value"], rows, cols)
            if isinstance(val, xr.DataArray):
                stats["photon3d_ops"] = 1
            try:
                if kind == "iadd":
                    cont += val
                else:
                    _ = cont + val
                raised = None
            except Exception as exc:  # noqa: BLE001
                raised = exc
            if prev is None:
                stats["iadd_on_empty"] = 1
                ok = valid_for(c, val, rows, cols)
                if ok:
                    newm = val.copy()
                    if c == "photon":
                        newm = None  # content must equal the operand; clipping of negatives is not demanded here
                    if raised is not None:
                        bad("C13.valid-accepted", f"C13.valid-rejected@{c}+{kind}-on-empty", {"op": k, "exc": repr(raised)[:200]})
                    else:
                        cur = content(cont)
                        if newm is not None and not same(cur, newm):
                            bad("C13.set-value", f"C13.set-value@{c}+{kind}-on-empty", {"op": k})
                        model[(d, c)] = cur
                else:
                    rejected_seen = True
                    stats["rejected_ops"] = stats.get("rejected_ops", 0) + 1
                    if raised is None:
                        bad("C13.invalid-rejected", f"C13.invalid-accepted@{c}+{kind}-on-empty", {"op": k, "value": op["value"]})
                        model[(d, c)] = content(cont)
                    elif content(cont) is not None:
                        bad("C13.rejected-untouched", f"C13.rejected-untouched@{c}+{kind}-on-empty", {"op": k})
                        model[(d, c)] = content(cont)
            else:
                # filled: mirror numpy's own in-place semantics on a copy of the model
                m = prev.copy()
                try:
                    with warnings.catch_warnings():
                        warnings.simplefilter("ignore")
                        m += val
                    mirror_exc = None
                except Exception as exc:  # noqa: BLE001
                    mirror_exc = exc
                cur = content(cont)
                if mirror_exc is not None or val is None:
                    rejected_seen = True
                    stats["rejected_ops"] = stats.get("rejected_ops", 0) + 1
                    if raised is None and not same(cur, prev):
                        bad("C13.invalid-rejected", f"C13.invalid-accepted@{c}+{kind}-on-filled", {"op": k, "value": op["value"]})
                    elif raised is not None and not same(cur, prev):
                        bad("C13.rejected-untouched", f"C13.rejected-untouched@{c}+{kind}-on-filled", {"op": k, "value": op["value"]})
                    model[(d, c)] = cur
                else:
                    if raised is not None:
                        # numpy accepted the operation but the container refused it: legal only if the result would be invalid
                        if not same(cur, prev):
                            bad("C13.rejected-untouched", f"C13.rejected-untouched@{c}+{kind}-on-filled", {"op": k})
                        model[(d, c)] = cur
                    else:
                        if not same(cur, m):
                            bad("C13.set-value", f"C13.add-value@{c}+{kind}", {"op": k, "value": op["value"]})
                        model[(d, c)] = cur
        elif kind == "det_assign":
            src = op["src"]
            S = get_c(dets[src], c)
            sm = model[(src, c)]
            try:
                setattr(det, c, S)
                raised = None
            except Exception as exc:  # noqa: BLE001
                raised = exc
            cur = content(get_c(det, c))
            if shapes[src] != shapes[d]:
                rejected_seen = True
                stats["rejected_ops"] = stats.get("rejected_ops", 0) + 1
                if sm is not None and raised is None:
                    bad("C13.invalid-rejected", f"C13.invalid-accepted@{c}+detector-assign-other-geometry", {"op": k})
                elif not same(cur, prev) and not (sm is None and cur is None):
                    bad("C13.rejected-untouched", f"C13.rejected-untouched@{c}+detector-assign", {"op": k})
            elif sm is not None:
                if raised is not None:
                    bad("C13.valid-accepted", f"C13.valid-rejected@{c}+detector-assign", {"op": k, "exc": repr(raised)[:200]})
                else:
                    want = sm
                    if c == "photon":
                        # an assignment: negative counts (an earlier '+' / '+=' of negative values may have left some) are clipped
                        want = sm.clip(min=0.0) if isinstance(sm, xr.DataArray) else np.where(sm < 0, 0.0, sm).astype(sm.dtype)
                    if not same(cur, want):
                        bad("C13.set-value", f"C13.set-value@{c}+detector-assign", {"op": k})
            model[(d, c)] = cur
        # aliasing is not constrained by the statement: a container that shares its array object with the one
        # just operated on (e.g. after 'detB.pixel = detA.pixel') legitimately follows in-place changes
        try:
            mine = get_c(dets[d], c)._array
            if mine is not None:
                for (dd, cc) in model:
                    if (dd, cc) != (d, c) and get_c(dets[dd], cc)._array is mine:
                        model[(dd, cc)] = content(get_c(dets[dd], cc))
                        stats["aliased_containers"] = 1
        except Exception:  # noqa: BLE001
            pass
        # invariant after every mutating operation, on every container of every detector
        for (dd, cc), _m in model.items():
            msg = check_invariant(cc, get_c(dets[dd], cc), *shapes[dd])
            if msg:
                bad("C13.invariant", f"C13.invariant@{cc}-after-{kind}" + ("-on-empty" if prev is None and kind in ("iadd", "add") else ""), {"op": k, "container": [dd, cc], "problem": msg})
                model[(dd, cc)] = None
                try:
                    get_c(dets[dd], cc)._array = None  # repair so that one defect is reported once
                except Exception:  # noqa: BLE001
                    pass
        h.update(repr((k, kind, c)).encode())
        if viol:
            break
    seen, uniq = set(), []
    for v in viol:
        if v["signature"] not in seen:
            seen.add(v["signature"])
            uniq.append(v)
    return {
        "violations": uniq,
        "stats": stats,
        "nontrivial": nontrivial,
        "key": hashlib.sha256(repr([(o["op"], o.get("c"), (o.get("value") or {}).get("shape"), (o.get("value") or {}).get("dtype")) for o in scn["ops"]]).encode()).hexdigest()[:16],
        "digest": h.hexdigest()[:16],
        "sim_time": 0.0,
        "decisions": [],
        "sample": {"det_type": scn["det_type"], "shape": [rows, cols], "ops": [{k2: v2 for k2, v2 in o.items()} for o in scn["ops"][:6]]},
    }


_ = engine
