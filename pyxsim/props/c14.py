"""C14 — charge is accounted identically as arrays and as positioned clusters."""

from __future__ import annotations

import copy
import hashlib
import math

import numpy as np

from .. import world

ID = "C14"
LEVEL = "exploration"
FORCED_OK = False
MAX_REPORTS = 8
NEEDS_ENV = {"NUMBA_BOUNDSCHECK": "1"}
TECHNIQUE = "deterministic simulation of charge-container histories: seeded interleavings of array additions, cluster additions (inside, on pixel borders, on detector edges, negative, beyond range), data-frame additions, reads, removals and resets are applied to the real Charge container (numba bounds-checked build, so an out-of-area write raises instead of corrupting the worker) next to an independent per-pixel accumulator; failing histories are shrunk and replayed"
LEVEL_TEXT = "seeded exploration of operation histories x geometries x pixel sizes; out-of-area clusters are the injected fault; the accumulator is compared after every read"
LEVEL_NOTE = "trusted: the accumulator (row = floor(y / pixel height), column likewise; out-of-area contributes nowhere); pixel sizes and positions are exactly representable so floor(y/h) is unambiguous; checks run with NUMBA_BOUNDSCHECK=1 (an IndexError on read is reported as memory corruption by an out-of-area cluster)"
RULE = (
    "history of 3..12 operations on one detector's charge container: add_array, add_clusters(k positions drawn from inside / border / edge / negative / beyond), add_dataframe, read array, read frame, remove(ids | all), reset; "
    "distinct = distinct (operation kinds, position classes); non-trivial = arrays and clusters interleaved, or an out-of-area / border cluster followed by a read"
)
ASSUMPTIONS = [
    "a cluster table whose columns come in another order (sorted / reversed) holds the same clusters: add_charge_dataframe accepts any order of the column set",
    "charge amounts are small multiples of 0.5 so that sums are exact in any order",
    "removal of clusters removes their charge from the reported array; once clusters exist, array additions live in the cluster table (as the container converts them) and can be removed like any other cluster",
    "only non-negative charge is added (the statement is about non-negative charge)",
]
COMPONENTS = {"real": ["pyxel.data_structure.Charge (pandas frame, numba binning)", "Geometry"], "stub": []}
BUDGET = {"quick": {"n": 1600, "wall": 100, "determinism": 4}, "thorough": {"n": 1400000, "wall": 1500, "determinism": 12}}
REQUIRED_REACH = ["op:add_array", "op:add_clusters", "op:add_dataframe", "op:read", "op:remove", "op:reset", "pos:border", "pos:edge", "pos:negative", "pos:beyond", "array_after_clusters", "clusters_after_array", "op:resize", "resize_after_mixed_use", "duplicated", "dataframe_columns_reordered", "reordered_dataframe_after_clusters"]

POS = ("inside", "inside", "inside", "border", "edge", "negative", "beyond")


def gen_pos(rng, rows, cols, pv, ph, cls):
    if cls == "inside":
        return (rng.randrange(rows) + rng.choice([0.25, 0.5, 0.75])) * pv, (rng.randrange(cols) + rng.choice([0.25, 0.5, 0.75])) * ph
    if cls == "border":  # exactly on the line between two pixels
        return rng.randrange(rows) * pv, (rng.randrange(cols) + 0.5) * ph
    if cls == "edge":  # exactly on the far edge of the sensitive area
        return (rows * pv, 0.5 * ph) if rng.random() < 0.5 else (0.5 * pv, cols * ph)
    if cls == "negative":
        return (-rng.choice([0.25, 1.0, 3.0]) * pv, (rng.randrange(cols) + 0.5) * ph) if rng.random() < 0.5 else ((rng.randrange(rows) + 0.5) * pv, -rng.choice([0.25, 2.0]) * ph)
    return ((rows + rng.choice([0.5, 3.0, 40.0])) * pv, 0.5 * ph) if rng.random() < 0.5 else (0.5 * pv, (cols + rng.choice([0.5, 7.0])) * ph)


def _df_flavour(r):
    """one draw decides: a frame with a missing column (refused), or a legal frame whose columns come in another order"""
    if r < 0.15:
        return {"bad_columns": True}
    if r < 0.55:
        return {"bad_columns": False, "col_order": "sorted" if r < 0.35 else "reversed"}
    return {"bad_columns": False}


def generate(rng, tier):
    rows, cols = rng.randint(2, 5), rng.randint(2, 5)
    pv, ph = rng.choice([1.0, 5.0, 10.0, 18.0, 0.5, 2.5]), rng.choice([1.0, 5.0, 10.0, 18.0, 0.5, 2.5])
    ops = []
    pv0, ph0 = pv, ph
    for _ in range(rng.randint(3, 12)):
        r = rng.random()
        if ops and ops[-1]["op"] == "reset" and rng.random() < 0.5:
            # the pixel size is changed through the geometry's setters while the detector holds no charge
            pv, ph = rng.choice([1.0, 5.0, 10.0, 18.0, 0.5, 2.5]), rng.choice([1.0, 5.0, 10.0, 18.0, 0.5, 2.5])
            ops.append({"op": "resize", "pv": pv, "ph": ph})
            continue
        if r < 0.04:
            ops.append({"op": "duplicate", "continue_on": rng.choice(["original", "copy"])})
            continue
        if r < 0.22:
            vals = [[rng.choice([0.0, 0.0, 1.0, 2.5, 7.0]) for _ in range(cols)] for _ in range(rows)]
            ops.append({"op": "add_array", "values": vals, "dtype": rng.choice(["float64", "float64", "float32"])})
        elif r < 0.5:
            k = rng.randint(1, 4)
            cl = []
            for _ in range(k):
                cls = rng.choice(POS)
                y, x = gen_pos(rng, rows, cols, pv, ph, cls)
                cl.append({"cls": cls, "y": y, "x": x, "n": rng.choice([1.0, 2.0, 3.5, 10.0])})
            ops.append({"op": "add_clusters", "clusters": cl})
        elif r < 0.58:
            cls = rng.choice(POS)
            y, x = gen_pos(rng, rows, cols, pv, ph, cls)
            ops.append({"op": "add_dataframe", "clusters": [{"cls": cls, "y": y, "x": x, "n": rng.choice([1.0, 4.0])}], **_df_flavour(rng.random())})
        elif r < 0.82:
            ops.append({"op": "read", "what": rng.choice(["array", "array", "frame", "xarray"])})
        elif r < 0.92:
            ops.append({"op": "remove", "ids": None if rng.random() < 0.3 else sorted({rng.randrange(6) for _ in range(rng.randint(1, 2))})})
        else:
            ops.append({"op": "reset"})
    ops.append({"op": "read", "what": "array"})
    return {"det_type": rng.choice(world.DET_TYPES), "rows": rows, "cols": cols, "pv": pv0, "ph": ph0, "ops": ops}


def shrink(scn):
    for i in range(len(scn["ops"]) - 1):
        if scn["ops"][i]["op"] == "reset" and scn["ops"][i + 1]["op"] == "resize":
            continue  # the pixel size only changes while the detector is empty
        c = copy.deepcopy(scn)
        del c["ops"][i]
        yield c
    for i, o in enumerate(scn["ops"]):
        if o["op"] in ("add_clusters",) and len(o["clusters"]) > 1:
            for j in range(len(o["clusters"])):
                c = copy.deepcopy(scn)
                del c["ops"][i]["clusters"][j]
                yield c


def _arrays(cl):
    n = len(cl)
    return dict(
        particle_type="e",
        particles_per_cluster=np.array([c["n"] for c in cl], dtype=float),
        init_energy=np.zeros(n),
        init_ver_position=np.array([c["y"] for c in cl], dtype=float),
        init_hor_position=np.array([c["x"] for c in cl], dtype=float),
        init_z_position=np.zeros(n),
        init_ver_velocity=np.zeros(n),
        init_hor_velocity=np.zeros(n),
        init_z_velocity=np.zeros(n),
    )


class Model:
    """Independent accumulator."""

    def __init__(self, rows, cols, pv, ph):
        self.rows, self.cols, self.pv, self.ph = rows, cols, pv, ph
        self.arr = np.zeros((rows, cols))
        self.clusters: list[dict] = []  # label, y, x, n

    def _relabel(self):
        for i, c in enumerate(self.clusters):
            c["label"] = i

    def _arr_to_clusters(self, a):
        out = []
        for r in range(self.rows):
            for c in range(self.cols):
                if a[r, c] > 0.0:
                    out.append({"y": (r + 0.5) * self.pv, "x": (c + 0.5) * self.ph, "n": float(a[r, c])})
        return out

    def add_clusters(self, cl):
        new = [{"y": c["y"], "x": c["x"], "n": c["n"]} for c in cl]
        if not self.clusters:
            self.clusters = self._arr_to_clusters(self.arr) + new
            self.arr = np.zeros_like(self.arr)
        else:
            self.clusters = self.clusters + new
        self._relabel()

    def add_array(self, a):
        if not self.clusters:
            self.arr = self.arr + a
        else:
            self.clusters = self.clusters + self._arr_to_clusters(a)
            self._relabel()

    def remove(self, ids):
        if not ids:
            self.clusters = []
        else:
            self.clusters = [c for c in self.clusters if c["label"] not in ids]

    def reset(self):
        self.arr = np.zeros_like(self.arr)
        self.clusters = []

    def expected(self):
        out = self.arr.copy()
        for c in self.clusters:
            r, q = math.floor(c["y"] / self.pv), math.floor(c["x"] / self.ph)
            if 0 <= r < self.rows and 0 <= q < self.cols:
                out[r, q] += c["n"]
        return out


def execute(scn):
    import pandas as pd

    from pyxel.data_structure import Charge

    world.reset_process_state()
    rows, cols, pv, ph = scn["rows"], scn["cols"], scn["pv"], scn["ph"]
    spec = world.gen_detector(__import__("random").Random(2), types=(scn["det_type"],))
    spec.update({"row": rows, "col": cols, "pixel_vert_size": pv, "pixel_horz_size": ph})
    det = world.build_detector(spec)
    ch = det.charge
    m = Model(rows, cols, pv, ph)
    viol, stats = [], {}
    h = hashlib.sha256()
    seen_cls: set[str] = set()
    nontrivial = False
    had_array = had_clusters = False
    had_mixed = False
    frozen_list: list = []

    def bad(clause, sig, detail):
        viol.append({"clause": clause, "signature": sig, "detail": detail})

    for k, op in enumerate(scn["ops"]):
        kind = op["op"]
        stats["op:" + kind] = stats.get("op:" + kind, 0) + 1
        try:
            if kind == "add_array":
                a = np.array(op["values"], dtype=op["dtype"])
                ch.add_charge_array(a)
                m.add_array(a.astype(float))
                if had_clusters and m.clusters:
                    stats["array_after_clusters"] = 1
                    nontrivial = True
                    had_mixed = True
                had_array = True
            elif kind == "add_clusters":
                ch.add_charge(**_arrays(op["clusters"]))
                if had_array:
                    stats["clusters_after_array"] = 1
                    nontrivial = True
                    had_mixed = True
                m.add_clusters(op["clusters"])
                had_clusters = True
                for c in op["clusters"]:
                    stats["pos:" + c["cls"]] = 1
                    seen_cls.add(c["cls"])
            elif kind == "add_dataframe":
                df = Charge.create_charges(**_arrays(op["clusters"]))
                if op.get("bad_columns"):
                    df = df.drop(columns=["energy"])
                    try:
                        ch.add_charge_dataframe(df)
                        bad("C14.frame-validated", "C14.bad-dataframe-accepted", {"op": k})
                    except ValueError:
                        pass
                else:
                    if op.get("col_order"):
                        # the same columns in another order are the same clusters (the container accepts any order of the column set)
                        col_order = sorted(df.columns) if op["col_order"] == "sorted" else list(df.columns)[::-1]
                        df = df[col_order]
                        stats["dataframe_columns_reordered"] = 1
                        if had_clusters:
                            stats["reordered_dataframe_after_clusters"] = 1
                    ch.add_charge_dataframe(df)
                    m.add_clusters(op["clusters"])
                    had_clusters = True
                    for c in op["clusters"]:
                        stats["pos:" + c["cls"]] = 1
                        seen_cls.add(c["cls"])
            elif kind == "remove":
                ch.remove_from_frame(op["ids"])
                m.remove(op["ids"])
            elif kind == "resize":
                det.geometry.pixel_vert_size = op["pv"]
                det.geometry.pixel_horz_size = op["ph"]
                m.pv, m.ph = op["pv"], op["ph"]
                pv, ph = op["pv"], op["ph"]
                if had_mixed:
                    stats["resize_after_mixed_use"] = 1
                    nontrivial = True
            elif kind == "duplicate":
                twin = type(det).from_dict(det.to_dict())
                frozen_exp = m.expected()
                stats["duplicated"] = 1
                if op["continue_on"] == "copy":
                    det, frozen = twin, det
                    ch = det.charge
                else:
                    frozen = twin
                frozen_list.append((frozen, frozen_exp, k))
                got0 = np.array(frozen.charge.array)
                if got0.shape != frozen_exp.shape or not np.array_equal(got0, frozen_exp):
                    bad("C14.accounting", "C14.accounting@duplicate", {"op": k})
            elif kind == "reset":
                if k % 2:
                    det.charge.empty()
                else:
                    ch.empty()
                m.reset()
                had_array = had_clusters = False
            elif kind == "read":
                exp = m.expected()
                outside = [c for c in m.clusters if not (0 <= math.floor(c["y"] / pv) < rows and 0 <= math.floor(c["x"] / ph) < cols)]
                feat_out = "+".join(sorted({("negative" if (c["y"] < 0 or c["x"] < 0) else "beyond") for c in outside})) or "all-inside"
                if seen_cls & {"border", "edge", "negative", "beyond"}:
                    nontrivial = True
                if op["what"] == "frame":
                    fr = ch.frame
                    if not isinstance(fr, pd.DataFrame) or len(fr) != len(m.clusters):
                        bad("C14.frame", f"C14.frame-length@{feat_out}", {"op": k, "got": len(fr), "expected": len(m.clusters)})
                    else:
                        got_n = sorted(float(x) for x in fr["number"].values)
                        if got_n != sorted(c["n"] for c in m.clusters):
                            bad("C14.frame", "C14.frame-content", {"op": k})
                else:
                    try:
                        got = np.array(ch.array) if op["what"] == "array" else np.array(ch.to_xarray().values)
                    except IndexError as exc:
                        bad("C14.memory", f"C14.out-of-bounds-write@{feat_out}", {"op": k, "exc": repr(exc)[:160], "outside": outside[:3], "note": "bounds-checked build raised; the shipped build writes outside the array"})
                        m.remove([c["label"] for c in outside])
                        ch.remove_from_frame([c["label"] for c in outside] or [10**9])
                        continue
                    if got.shape != (rows, cols):
                        bad("C14.array", "C14.array-shape", {"op": k, "shape": got.shape})
                    elif not np.array_equal(got, exp):
                        diff = np.argwhere(got != exp)
                        r0, c0 = (int(x) for x in diff[0])
                        why = feat_out
                        if feat_out == "all-inside":
                            why = "all-inside" + ("+after-remove" if any(o["op"] == "remove" for o in scn["ops"][:k]) else "") + ("+border" if "border" in seen_cls else "")
                        bad("C14.accounting", f"C14.accounting@{why}", {"op": k, "pixel": [r0, c0], "reported": float(got[r0, c0]), "expected": float(exp[r0, c0]), "outside_clusters": outside[:3]})
                    h.update(np.ascontiguousarray(got).tobytes())
        except Exception as exc:  # noqa: BLE001
            bad("C14.operation-raises", f"C14.operation-raises@{kind}:{type(exc).__name__}", {"op": k, "exc": repr(exc)[:300]})
        for fz, fexp, k0 in frozen_list:
            try:
                gz = np.array(fz.charge.array)
            except Exception as exc:  # noqa: BLE001
                bad("C14.operation-raises", f"C14.operation-raises@read-of-duplicate:{type(exc).__name__}", {"op": k, "exc": repr(exc)[:200]})
                break
            if gz.shape != fexp.shape or not np.array_equal(gz, fexp):
                bad("C14.accounting", f"C14.charge-of-the-other-detector-changed@after-{kind}", {"op": k, "duplicated_at": k0})
                break
        h.update(repr((k, kind)).encode())
        if viol:
            break
    seen, uniq = set(), []
    for v in viol:
        if v["signature"] not in seen:
            seen.add(v["signature"])
            uniq.append(v)
    return {
        "violations": uniq,
        "stats": stats,
        "nontrivial": nontrivial,
        "key": hashlib.sha256(repr([(o["op"], tuple(c["cls"] for c in o.get("clusters", [])), o.get("ids") is None if o["op"] == "remove" else None) for o in scn["ops"]]).encode()).hexdigest()[:16],
        "digest": h.hexdigest()[:16],
        "sim_time": 0.0,
        "decisions": [],
        "sample": {"shape": [rows, cols], "pixel": [pv, ph], "ops": scn["ops"][:5]},
    }
