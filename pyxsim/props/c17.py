"""C17 — splitting an exposure into more readouts does not change collected charge."""

from __future__ import annotations

import copy
import hashlib
import os
import traceback

import numpy as np

from .. import engine, world

ID = "C17"
LEVEL = "exploration"
FORCED_OK = False
TECHNIQUE = "deterministic simulation over the detector's own virtual readout clock: the simulator chooses two partitions of the same exposure interval (1..12 readouts; uniform, random, very short first step, very long last step) for pipelines of the real flux-integrating models (input images and charge maps through the file seam) and requires the accumulated charge to be invariant (non-destructive) or to scale with the intervals (destructive)"
LEVEL_TEXT = "seeded exploration of clock partitions x model combinations x level / time-scale arguments x geometries; a metamorphic relation over the time seam. The partition is a configuration value, not an uncontrolled schedule: this is claimed at exploration level with that limit stated"
LEVEL_NOTE = "trusted: relative tolerance 1e-9 (different summation order); only deterministic model settings are generated (noise-free dark current, expectation-value photo-conversion)"
RULE = (
    "scenario = detector (CCD, CMOS, MKID, APD) + subset of {illumination(uniform|rectangular|elliptic), stripe_pattern, load_image(file), load_charge(file), dark_current(temporal_noise=False), simple_conversion(binomial_sampling=False), simple_collection} + interval (start, end] + two partitions; "
    "distinct = distinct (model set, partition sizes, mode); non-trivial = the two partitions have different numbers of readouts and at least two flux sources are combined"
)
ASSUMPTIONS = [
    "non-destructive: final pixel frames of both partitions agree to 1e-9 relative (absolute floor 1e-12)",
    "destructive: for intervals scaled by k (same start) every frame is k times the corresponding frame, to 1e-9 relative",
    "in about 40 % of the non-destructive scenarios the two partitions are also the two values of a swept 'observation.readout.times' of one sequentially executed non-destructive observation; each run's final pixel frame must equal the exposure's",
]
COMPONENTS = {"real": ["pyxel exposure/readout", "sequentially executed observation with swept readout times", "illumination, stripe_pattern, load_image, load_charge, dark_current, simple_conversion, simple_collection", "scratch filesystem for input files"], "stub": []}
BUDGET = {"quick": {"n": 480, "wall": 100, "determinism": 4}, "thorough": {"n": 80000, "wall": 1500, "determinism": 12}}
REQUIRED_REACH = ["type:CCD", "type:CMOS", "type:MKID", "type:APD", "mode:nd", "mode:destructive", "model:illumination", "model:stripe_pattern", "model:load_image", "model:load_charge", "model:dark_current", "partition:short-first", "partition:long-last", "partition:uniform", "partition:random", "partitions_as_swept_readout_times", "nonzero_start", "twelve_readouts"]


def gen_partition(rng, start, end, n, kind):
    span = end - start
    if n == 1:
        return [end]
    if kind == "uniform":
        cuts = [start + span * i / n for i in range(1, n)]
    elif kind == "short-first":
        first = span * 1e-4
        cuts = [start + first + (span - first) * i / (n - 1) for i in range(0, n - 1)]
    elif kind == "long-last":
        head = span * 0.01
        cuts = [start + head * i / (n - 1) for i in range(1, n)]
    else:
        cuts = sorted(start + span * rng.uniform(0.02, 0.98) for _ in range(n - 1))
    cuts = sorted(set(round(c, 9) for c in cuts if start < c < end and round(c, 9) != 0.0))
    times = [*cuts, end]
    return [t for i, t in enumerate(times) if i == 0 or t > times[i - 1]]


def generate(rng, tier):
    det = world.gen_detector(rng, types=("CCD", "CMOS", "CCD", "CMOS", "MKID", "APD"))
    det["row"], det["col"] = rng.randint(3, 8), rng.randint(3, 8)
    det["temperature"] = rng.choice([150.0, 200.0, 250.0]) if det["type"] != "APD" else rng.choice([60.0, 80.0, 100.0])
    start = rng.choice([0.0, 0.0, 0.5, -1.0, 3.0])
    end = start + rng.choice([1.0, 2.5, 10.0, 60.0])
    if end == 0:
        end += 1.0
    models = []
    if rng.random() < 0.7:
        opt = rng.choice(["uniform", "rectangular", "elliptic"])
        a = {"level": rng.choice([1.0, 50.0, 1234.5]), "option": opt, "time_scale": rng.choice([1.0, 1.0, 0.5, 10.0])}
        if opt != "uniform":
            a["object_size"] = [rng.randint(1, det["row"]), rng.randint(1, det["col"])]
            a["object_center"] = [rng.randint(0, det["row"] - 1), rng.randint(0, det["col"] - 1)]
        models.append(("photon_collection", "illumination", a))
    if rng.random() < 0.4:
        models.append(("photon_collection", "stripe_pattern", {"period": rng.choice([2, 4]), "level": rng.choice([10.0, 300.0]), "angle": rng.choice([0, 45, 90]), "startwith": rng.choice([0, 1]), "time_scale": rng.choice([1.0, 2.0])}))
    if rng.random() < 0.4:
        models.append(("photon_collection", "load_image", {"image_file": "@image", "position": [0, 0], "multiplier": rng.choice([1.0, 0.25]), "time_scale": rng.choice([1.0, 3.0])}))
    has_photon = bool(models)
    cg = []
    if has_photon:
        cg.append(("charge_generation", "simple_conversion", {"quantum_efficiency": rng.choice([0.3, 0.8, 1.0]), "binomial_sampling": False}))
    if rng.random() < 0.4:
        cg.append(("charge_generation", "load_charge", {"filename": "@charge", "position": [0, 0], "time_scale": rng.choice([1.0, 2.0])}))
    if rng.random() < 0.4 and det["type"] in ("CCD", "CMOS"):
        cg.append(("charge_generation", "dark_current", {"figure_of_merit": rng.choice([0.5, 2.0]), "band_gap": 1.12, "band_gap_room_temperature": 1.12, "temporal_noise": False}))
    if not cg and not has_photon:
        cg.append(("charge_generation", "load_charge", {"filename": "@charge", "position": [0, 0], "time_scale": 1.0}))
    rng.shuffle(cg)
    models += cg
    models.append(("charge_collection", "simple_collection", {}))
    n1, n2 = rng.randint(1, 12), rng.randint(1, 12)
    k1, k2 = rng.choice(["uniform", "random", "short-first", "long-last"]), rng.choice(["uniform", "random", "short-first", "long-last"])
    return {
        "detector": det, "models": models, "start": start, "end": end,
        "p1": {"times": gen_partition(rng, start, end, n1, k1), "kind": k1},
        "p2": {"times": gen_partition(rng, start, end, n2, k2), "kind": k2},
        "destructive": rng.random() < 0.35, "scale": rng.choice([0.5, 2.0, 3.0]),
        "img_salt": rng.randint(1, 50),
        # the two partitions additionally requested as the values of a swept 'observation.readout.times' (sequentially executed observation)
        "via_sweep": rng.random() < 0.4,
    }


def shrink(scn):
    for i, m in enumerate(scn["models"]):
        if m[1] in ("simple_collection", "simple_conversion"):
            continue
        c = copy.deepcopy(scn)
        del c["models"][i]
        if any(x[1] not in ("simple_collection", "simple_conversion") for x in c["models"]):
            yield c
    for p in ("p1", "p2"):
        t = scn[p]["times"]
        if len(t) > 1:
            c = copy.deepcopy(scn)
            c[p]["times"] = t[len(t) // 2 :]
            yield c


def run(scn, times, scratch, destructive):
    import pyxel
    from pyxel.exposure import Exposure, Readout
    from pyxel.pipelines import DetectionPipeline, ModelFunction

    det = world.build_detector(scn["detector"])
    groups: dict[str, list] = {}
    for g, name, args in scn["models"]:
        a = {k: (os.path.join(scratch, "image.npy") if v == "@image" else os.path.join(scratch, "charge.npy") if v == "@charge" else copy.deepcopy(v)) for k, v in args.items()}
        groups.setdefault(g, []).append(ModelFunction(func=f"pyxel.models.{g}.{name}", name=name, arguments=a))
    pipe = DetectionPipeline(**groups)
    ro = Readout(times=list(times), start_time=scn["start"], non_destructive=not destructive)
    tree = pyxel.run_mode(mode=Exposure(readout=ro), detector=det, pipeline=pipe, with_inherited_coords=True)
    return np.asarray(tree["/bucket/pixel"].values, dtype=float)


def run_sweep(scn, partitions, scratch):
    """The partitions as values of the swept parameter 'observation.readout.times' of one sequentially executed, non-destructive
    observation; returns the final pixel frame of each run."""
    import pyxel
    from pyxel.exposure import Readout
    from pyxel.observation import Observation, ParameterValues
    from pyxel.pipelines import DetectionPipeline, ModelFunction

    det = world.build_detector(scn["detector"])
    groups: dict[str, list] = {}
    for g, name, args in scn["models"]:
        a = {k: (os.path.join(scratch, "image.npy") if v == "@image" else os.path.join(scratch, "charge.npy") if v == "@charge" else copy.deepcopy(v)) for k, v in args.items()}
        groups.setdefault(g, []).append(ModelFunction(func=f"pyxel.models.{g}.{name}", name=name, arguments=a))
    pipe = DetectionPipeline(**groups)
    mode = Observation(
        parameters=[ParameterValues(key="observation.readout.times", values=[list(p) for p in partitions])],
        readout=Readout(times=[scn["end"]], start_time=scn["start"], non_destructive=True),
        with_dask=False,
    )
    tree = pyxel.run_mode(mode=mode, detector=det, pipeline=pipe, with_inherited_coords=True)
    pixel = tree["/bucket/pixel"].compute()
    dim = next(d for d in pixel.dims if d not in ("time", "y", "x"))
    out = []
    for i in range(len(partitions)):
        frames = pixel.isel({dim: i}).sortby("time")
        out.append(np.asarray(frames.isel(time=-1).values, dtype=float))
    return out


def execute(scn):
    world.reset_process_state()
    viol, stats = [], {}
    rows, cols = scn["detector"]["row"], scn["detector"]["col"]
    names = [m[1] for m in scn["models"]]
    stats["type:" + scn["detector"]["type"]] = 1
    for n in names:
        stats["model:" + n] = 1
    stats["partition:" + scn["p1"]["kind"]] = 1
    stats["partition:" + scn["p2"]["kind"]] = 1
    if scn["start"] != 0:
        stats["nonzero_start"] = 1
    if max(len(scn["p1"]["times"]), len(scn["p2"]["times"])) == 12:
        stats["twelve_readouts"] = 1
    feat = "+".join(sorted(set(names) - {"simple_collection", "simple_conversion"}))
    digest = ""
    with world.Scratch() as scratch:
        img = (np.arange(rows * cols, dtype=float).reshape(rows, cols) + scn["img_salt"]) * 3.0
        np.save(os.path.join(scratch, "image.npy"), img)
        np.save(os.path.join(scratch, "charge.npy"), img * 0.5 + 1.0)
        try:
            if not scn["destructive"]:
                stats["mode:nd"] = 1
                a = run(scn, scn["p1"]["times"], scratch, False)
                b = run(scn, scn["p2"]["times"], scratch, False)
                fa, fb = a[-1], b[-1]
                if not np.allclose(fa, fb, rtol=1e-9, atol=1e-12):
                    i = np.unravel_index(np.argmax(np.abs(fa - fb)), fa.shape)
                    viol.append({"clause": "C17.partition-invariant", "signature": f"C17.partition-invariant@{feat}", "detail": {"pixel": [int(x) for x in i], "partition_1": scn["p1"], "partition_2": scn["p2"], "final_1": float(fa[i]), "final_2": float(fb[i]), "start": scn["start"]}})
                digest = hashlib.sha256(np.round(fa, 6).tobytes()).hexdigest()[:16]
                if scn.get("via_sweep") and len(scn["p1"]["times"]) != len(scn["p2"]["times"]):
                    stats["partitions_as_swept_readout_times"] = 1
                    for which, got, want in zip(("p1", "p2"), run_sweep(scn, [scn["p1"]["times"], scn["p2"]["times"]], scratch), (fa, fb)):
                        if got.shape != want.shape or not np.allclose(got, want, rtol=1e-9, atol=1e-12):
                            viol.append({"clause": "C17.partition-invariant", "signature": f"C17.partition-invariant@swept-readout-times+{feat}", "detail": {"partition": scn[which], "final_pixel0_exposure": float(want.ravel()[0]), "final_pixel0_observation": float(got.ravel()[0]) if got.size else None}})
            else:
                stats["mode:destructive"] = 1
                k = scn["scale"]
                t1 = scn["p1"]["times"]
                t2 = [scn["start"] + k * (t - scn["start"]) for t in t1]
                if t2[0] == 0:
                    t2 = None
                if t2 is not None:
                    a = run(scn, t1, scratch, True)
                    b = run(scn, t2, scratch, True)
                    if a.shape != b.shape or not np.allclose(b, k * a, rtol=1e-9, atol=1e-12):
                        viol.append({"clause": "C17.proportional", "signature": f"C17.proportional@{feat}", "detail": {"times": t1, "scaled_times": t2, "k": k, "frame0_pixel0": [float(a[0].ravel()[0]), float(b[0].ravel()[0])]}})
                    digest = hashlib.sha256(np.round(a, 6).tobytes()).hexdigest()[:16]
        except Exception as exc:  # noqa: BLE001
            viol.append({"clause": "C17.runs", "signature": f"C17.runs-raises:{type(exc).__name__}@{feat}", "detail": {"exc": repr(exc)[:300], "tb": traceback.format_exc(limit=4)[-600:]}})
    sources = len(set(names) - {"simple_collection", "simple_conversion"})
    return {
        "violations": viol,
        "stats": stats,
        "nontrivial": len(scn["p1"]["times"]) != len(scn["p2"]["times"]) and sources >= 2,
        "key": hashlib.sha256(engine.jdump([sorted(names), len(scn["p1"]["times"]), len(scn["p2"]["times"]), scn["p1"]["kind"], scn["p2"]["kind"], scn["destructive"]]).encode()).hexdigest()[:16],
        "digest": digest,
        "sim_time": 2.0 * (scn["end"] - scn["start"]),
        "decisions": [],
        "sample": {"models": names, "start": scn["start"], "end": scn["end"], "partition_1": scn["p1"], "partition_2": scn["p2"], "destructive": scn["destructive"]},
    }
