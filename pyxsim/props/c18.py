"""C18 — a detector saved to a file and loaded back is the same detector."""

from __future__ import annotations

import copy
import hashlib
import os

import numpy as np

from .. import engine, expo, probes, ref, world
from .c06 import _diff, snapshot

ID = "C18"
LEVEL = "exploration"
FORCED_OK = False
MAX_REPORTS = 8
TECHNIQUE = "deterministic simulation through the storage seam: detector states are produced by simulated writer pipelines (any subset of containers, 2-D / multi-wavelength photons, charge arrays and cluster tables, scene, processed data, MKID phase), written to and read from a scratch filesystem, and compared field by field (never with the library's ==); plus two-run histories in which run 1 ends with save_detector and run 2 contains load_detector at a drawn pipeline position followed by observer probes, so that 'later models and the final result see the loaded state' is checked inside the run"
LEVEL_TEXT = "seeded exploration over the four detector types, valid property values, container subsets and contents, save/load/compare histories and load positions; ASDF always, HDF5 recorded as not run (h5py is not installed in this sandbox)"
LEVEL_NOTE = "trusted: the structural snapshot walker shared with C06; the probe's public-API snapshots inside run 2; asdf as the storage library"
RULE = (
    "scenario = detector type + properties + writer pipeline; history: run (exposure), save(asdf) [, save again / load / compare], then run 2 whose pipeline contains load_detector at a drawn position followed by observers; "
    "distinct = distinct (detector type, written container set, load position); non-trivial = at least three containers initialised including one of {3-D photon, clusters, scene, data, phase}"
)
ASSUMPTIONS = [
    "written buckets may be dark frames (every element zero) and the environment may hold a single wavelength or a multi-wavelength description with a fractional resolution; both are states the constructors accept, so they must survive the file",
    "equality is structural and exact (arrays bit-identical, frames equal column by column, trees equal node by node)",
    "HDF5 round trips cannot run here (h5py missing); they are counted under 'hdf5_not_run' and never as passed",
    "for the load-detector clause the observers after the load must see the file's buckets (plus what they themselves wrote) and the final result must carry them",
]
COMPONENTS = {"real": ["Detector.save / load / to_asdf / from_asdf / to_dict / from_dict for CCD, CMOS, MKID, APD", "pyxel.models.load_detector / save_detector inside run_mode", "asdf on a real scratch filesystem"], "stub": ["HDF5 backend: not available"]}
BUDGET = {"quick": {"n": 400, "wall": 100, "determinism": 4}, "thorough": {"n": 70000, "wall": 1500, "determinism": 12}}
REQUIRED_REACH = ["type:CCD", "type:CMOS", "type:MKID", "type:APD", "photon3d", "clusters", "scene", "data", "phase", "load_in_pipeline", "load_repeated_in_one_run", "dark:photon", "dark:pixel", "dark:image", "wavelength_description", "wavelength_fractional_resolution", "single_wavelength", "data_groups_without_variables", "roundtrips", "hdf5_not_run", "empty_containers"]

WRITES = ["photon", "charge", "pixel", "signal", "image", "scene", "data", "clusters"]


def generate(rng, tier):
    det = world.gen_detector(rng)
    det["adc_bit_resolution"] = rng.choice([8, 12, 16])
    scn = {"detector": det, "readout": {"times": [1.0, 2.5][: rng.randint(1, 2)], "start_time": 0.0, "non_destructive": rng.random() < 0.5}}
    subset = [b for b in WRITES if rng.random() < 0.5]
    if "photon" in subset and rng.random() < 0.4:
        subset[subset.index("photon")] = "photon3d"
    if det["type"] == "MKID" and rng.random() < 0.6:
        subset.append("phase")
    if rng.random() < 0.25:
        subset.append("data_empty")  # processed-data groups that hold no data variable
    models = []
    k = 0
    pool = list(subset)
    rng.shuffle(pool)
    while pool:
        take = [pool.pop() for _ in range(min(len(pool), rng.randint(1, 3)))]
        models.append({"name": f"w{k}", "func": world.PROBE, "enabled": True, "arguments": {"tag": f"w{k}", "level": rng.choice([1, 2.5, 7]), "write": take, "image_dtype": rng.choice(["uint8", "uint16", "uint32", "uint64"]), "float_dtype": "float64"}})
        k += 1
    for m in models:
        # dark frames: a written bucket whose every element is zero is still an initialised bucket
        dark = [b for b in m["arguments"]["write"] if b in ("photon", "photon3d", "pixel", "signal", "image", "charge") and rng.random() < 0.2]
        if dark:
            m["arguments"]["dark"] = dark
    w = rng.random()
    if w < 0.2:
        det["wavelength"] = rng.choice([450.0, 620.5, 2200.0])
    elif w < 0.5:
        det["wavelength"] = {"cut_on": rng.choice([400.0, 512.5]), "cut_off": rng.choice([700.0, 950.25]), "resolution": rng.choice([1, 10, 25, 2.5, 0.5])}
    groups = rng.sample(ref.CANONICAL_GROUPS, max(1, len(models)))
    groups.sort(key=ref.CANONICAL_GROUPS.index)
    pipe: dict[str, list] = {}
    for g, m in zip(groups, models):
        pipe.setdefault(g, []).append(m)
    if not models:
        pipe = {}
    scn["pipeline"] = pipe
    scn["written"] = subset
    # run 2: load at a drawn position, then observers
    scn["load_group"] = rng.choice(ref.CANONICAL_GROUPS[:-1])
    scn["observer_writes"] = rng.choice([[], ["pixel"], ["signal"], []])
    scn["run2_steps"] = rng.choice([1, 2, 3])
    scn["run2_nd"] = rng.random() < 0.5
    scn["history"] = rng.choice([["save", "load"], ["save", "load", "save2", "load2"], ["save", "load"]])
    return scn


def shrink(scn):
    for g, ms in scn["pipeline"].items():
        for i, m in enumerate(ms):
            for b in list(m["arguments"]["write"]):
                c = copy.deepcopy(scn)
                c["pipeline"][g][i]["arguments"]["write"].remove(b)
                c["written"] = [x for x in c["written"] if x != b]
                yield c
    if len(scn["readout"]["times"]) > 1:
        c = copy.deepcopy(scn)
        c["readout"]["times"] = c["readout"]["times"][:1]
        yield c


def det_state(det):
    """Field-by-field structural state (no use of the library's ==)."""
    out = {
        "type": type(det).__name__,
        "geometry": snapshot(det.geometry.to_dict()),
        "environment": snapshot(det.environment.to_dict()),
        "characteristics": snapshot(det.characteristics.to_dict()),
    }
    for name in ("_photon", "_pixel", "_signal", "_image", "_phase"):
        c = getattr(det, name, None)
        if c is None:
            continue
        a = c._array
        out[name] = None if a is None else snapshot(a)
    ch = det._charge
    out["charge_array"] = snapshot(np.asarray(ch.array))
    fr = ch.frame
    out["charge_frame"] = {col: [float(v) for v in fr[col].to_numpy()] for col in sorted(fr.columns)}
    out["scene"] = snapshot(det.scene.data)
    out["data"] = snapshot(det.data)
    return out


def execute(scn):
    import pyxel
    from pyxel.detectors import Detector
    from pyxel.exposure import Exposure

    world.reset_process_state()
    viol, stats = [], {}
    dtype = scn["detector"]["type"]
    stats["type:" + dtype] = 1
    written = set(scn["written"])
    for key, names in (("photon3d", {"photon3d"}), ("clusters", {"clusters"}), ("scene", {"scene"}), ("data", {"data"}), ("data_groups_without_variables", {"data_empty"}), ("phase", {"phase"})):
        if written & names:
            stats[key] = 1
    if len(written) <= 1:
        stats["empty_containers"] = 1
    darks = sorted({b for _, m in world.all_models(scn) for b in (m["arguments"].get("dark") or ())})
    for b in darks:
        stats["dark:" + b] = 1
    wl = scn["detector"].get("wavelength")
    if isinstance(wl, dict):
        stats["wavelength_description"] = 1
        if float(wl["resolution"]) != int(wl["resolution"]):
            stats["wavelength_fractional_resolution"] = 1
    elif wl is not None:
        stats["single_wavelength"] = 1
    stats["hdf5_not_run"] = 1
    feat = dtype + "+" + "+".join(sorted(written & {"photon3d", "clusters", "scene", "data", "data_empty", "phase"}) or ["plain"])
    h = hashlib.sha256()

    def bad(clause, sig, detail):
        viol.append({"clause": clause, "signature": sig, "detail": detail})

    with world.Scratch() as scratch:
        # ---- run 1: produce a state
        s1 = {"detector": scn["detector"], "pipeline": scn["pipeline"], "readout": scn["readout"], "mode": {"kind": "exposure"}}
        for _, m in world.all_models(s1):
            if "phase" in m["arguments"]["write"]:
                m["arguments"] = dict(m["arguments"])
        rec = expo.run_exposure(s1)
        if rec["exc"] is not None:
            bad("C18.harness", f"C18.state-run-raises:{type(rec['exc']).__name__}@{feat}", {"exc": repr(rec["exc"])[:300], "tb": rec.get("tb", "")[-500:]})
            det = None
        else:
            det = rec["objects"][1]
            orig = det_state(det)
            current = det
            for step in scn["history"]:
                path = os.path.join(scratch, "detector.asdf" if not step.endswith("2") else "detector2.asdf")
                if step.startswith("save"):
                    try:
                        current.save(path)
                    except Exception as exc:  # noqa: BLE001
                        bad("C18.save", f"C18.save-raises:{type(exc).__name__}@{feat}", {"exc": repr(exc)[:400]})
                        break
                else:
                    try:
                        loaded = Detector.load(path)
                    except Exception as exc:  # noqa: BLE001
                        bad("C18.load", f"C18.load-raises:{type(exc).__name__}@{feat}", {"exc": repr(exc)[:400]})
                        break
                    stats["roundtrips"] = stats.get("roundtrips", 0) + 1
                    got = det_state(loaded)
                    d = _diff(orig, got, "detector")
                    if d:
                        part = d.split(":")[0].split(".")[1] if "." in d else "detector"
                        bad("C18.roundtrip", f"C18.roundtrip@{part.split('[')[0]}+{dtype}", {"difference": d, "written": sorted(written), "history": scn["history"]})
                        break
                    # the original must not have been altered by saving
                    d0 = _diff(orig, det_state(det), "original")
                    if d0:
                        bad("C18.roundtrip", f"C18.save-alters-original@{dtype}", {"difference": d0})
                        break
                    current = loaded
                h.update(step.encode())
        # ---- run 2: load_detector inside a pipeline, observers afterwards
        if det is not None and not viol:
            stats["load_in_pipeline"] = 1
            path = os.path.join(scratch, "detector.asdf")
            lg = scn["load_group"]
            after = [g for g in ref.CANONICAL_GROUPS if ref.CANONICAL_GROUPS.index(g) > ref.CANONICAL_GROUPS.index(lg)]
            og = after[0] if after else lg
            pipe2 = {
                lg: [{"name": "load_detector", "func": "pyxel.models.load_detector", "enabled": True, "arguments": {"filename": path}}],
                og: [{"name": "obs", "func": world.PROBE, "enabled": True, "arguments": {"tag": "obs", "level": 3, "write": list(scn["observer_writes"])}}],
            }
            if og == lg:
                pipe2 = {lg: pipe2[lg] + [{"name": "obs", "func": world.PROBE, "enabled": True, "arguments": {"tag": "obs", "level": 3, "write": list(scn["observer_writes"])}}]}
            times2 = [1.0, 2.0, 4.0][: scn.get("run2_steps", 1)]
            s2 = {"detector": scn["detector"], "pipeline": pipe2, "readout": {"times": times2, "start_time": 0.0, "non_destructive": bool(scn.get("run2_nd"))}, "mode": {"kind": "exposure"}}
            if len(times2) > 1:
                stats["load_repeated_in_one_run"] = 1
            rec2 = expo.run_exposure(s2)
            if rec2["exc"] is not None:
                bad("C18.load-model", f"C18.load-model-raises:{type(rec2['exc']).__name__}@{feat}", {"exc": repr(rec2["exc"])[:300], "tb": rec2.get("tb", "")[-500:]})
            else:
                file_state = probes.snap(det)  # what run 1 left behind = what the file holds
                mismatch = False
                for ev in [e for e in rec2["hist"] if e["name"] == "obs"]:
                    seen = ev["before"]  # the load model ran just before, in every step
                    for b in ("photon", "charge", "pixel", "signal", "image"):
                        fa, sa = file_state.get(b), seen.get(b)
                        same = (fa is None and sa is None) or (fa is not None and sa is not None and fa.shape == sa.shape and np.array_equal(fa, sa))
                        if not same:
                            bad("C18.load-model", f"C18.load-model-state-not-seen@{b}" + ("+later-step" if ev["step"] > 0 else ""), {"bucket": b, "step": ev["step"], "file_holds": None if fa is None else fa.ravel()[:3].tolist(), "later_model_sees": None if sa is None else sa.ravel()[:3].tolist(), "load_group": lg})
                            mismatch = True
                            break
                    if mismatch:
                        break
                if not mismatch:
                    tree = rec2["tree"]
                    ds = tree["/bucket"].to_dataset()
                    for b in ("photon", "charge", "pixel", "signal", "image"):
                        if b in scn["observer_writes"]:
                            continue
                        fa = file_state.get(b)
                        if fa is None or (b == "charge" and not np.any(fa)):
                            continue
                        if b not in ds.data_vars or "y" not in ds[b].dims:
                            bad("C18.load-model", f"C18.load-model-result-missing@{b}", {"bucket": b})
                            break
                        got = np.asarray(ds[b].isel(time=0).values)
                        if len(times2) > 1:
                            continue  # later steps are covered by the observer's view above
                        if got.shape != fa.shape or not np.array_equal(got.astype(float), fa.astype(float)):
                            bad("C18.load-model", f"C18.load-model-result@{b}", {"bucket": b})
                            break
            h.update(b"run2")
    seen_s, uniq = set(), []
    for v in viol:
        if v["signature"] not in seen_s:
            seen_s.add(v["signature"])
            uniq.append(v)
    special = written & {"photon3d", "clusters", "scene", "data", "data_empty", "phase"}
    return {
        "violations": uniq,
        "stats": stats,
        "nontrivial": len(written) >= 3 and bool(special),
        "key": hashlib.sha256(engine.jdump([dtype, sorted(written), scn["load_group"], scn["history"]]).encode()).hexdigest()[:16],
        "digest": h.hexdigest()[:16] + ":" + hashlib.sha256(repr(sorted(written)).encode()).hexdigest()[:8],
        "sim_time": float(scn["readout"]["times"][-1]) + 1.0,
        "decisions": [],
        "sample": {"detector": dtype, "written": sorted(written), "history": scn["history"], "load_group": scn["load_group"]},
    }
