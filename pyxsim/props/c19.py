"""C19 — output files are complete, correctly attributed and never clobbered."""

from __future__ import annotations

import copy
import hashlib
import os
import random
import traceback

import numpy as np

from .. import engine, obs, probes, ref, sched, seams, select, world

ID = "C19"
LEVEL = "exploration"
FORCED_OK = True
MAX_REPORTS = 8
TECHNIQUE = "deterministic simulation over a scratch filesystem with a simulated wall clock: histories of starts (exposure, sequential and parallel observation) into one parent folder with the clock frozen, advanced by less or more than a second or set back, pre-populated colliding directories and files, concurrent starters as simulator threads with yield points at datetime.now / Path.mkdir / Path.exists / numpy.save / fits.writeto, and injected OSErrors (EACCES, ENOSPC) on mkdir and on writes; oracles over directory snapshots before/after, the /output node and file contents against the closed-form probe"
LEVEL_TEXT = "seeded exploration of start histories x save lists (buckets x npy / fits / jpg, single- and multi-key mappings) x modes x clock faults x concurrent schedules x filesystem faults"
LEVEL_NOTE = "trusted: the wall-clock seam (pyxel.outputs.outputs.datetime), the filesystem wrappers, sha-256 snapshots of the parent folder, reference values of the closed-form probe for file contents (npy / fits bit-exact; jpg existence only)"
RULE = (
    "history of 2..5 operations: start(kind, save list, optional filesystem fault), clock(dt in {0, 0.3, 1.5, -5}), prepopulate(colliding directory / stray files), concurrent(k exposure starters under a drawn schedule); "
    "distinct = distinct (operation kinds, modes, save-list shapes, clock steps); non-trivial = two starts within the same simulated second, or a concurrent start, or a colliding pre-existing name, or an injected filesystem fault"
)
ASSUMPTIONS = [
    "the directory a run reports is mode.outputs.current_output_folder; relative file names (sequential observation) are resolved against it",
    "lossless formats must read back equal to the final bucket of the attributed run as predicted by the reference model; jpg only has to exist",
    "the extra 'detector_<bucket>.<ext>' file that a sequentially executed observation leaves behind for its first run is unreported surplus and is not demanded or forbidden by the statement",
]
COMPONENTS = {"real": ["pyxel outputs (create_output_directory, save_to_files, save_to_file, apply_run_number)", "run_mode for the three modes and the file entry point pyxel.run (filename table, output_filenames.csv)", "dask get_async", "numpy.save / astropy fits.writeto / PIL on a real scratch filesystem"], "stub": ["wall clock (SimDateTime)", "thread pool", "OSError injection wrappers"]}
BUDGET = {"quick": {"n": 400, "wall": 110, "determinism": 4}, "thorough": {"n": 30000, "wall": 1600, "determinism": 12}}
REQUIRED_REACH = ["runs_with_identical_parameters", "seeded_observation", "bucket_in_several_entries", "via:file", "kind:exposure", "kind:obs-seq", "kind:obs-par", "same_second_starts", "clock_backwards", "prepopulated_dir", "concurrent_starts", "mkdir_lost_race", "fault:mkdir", "fault:write", "multi_key_mapping", "fmt:fits", "fmt:npy", "fmt:jpg", "resave_collision", "auto_numbered_saves", "picture_format_before_lossless"]

BUCKETS = ("photon", "pixel", "signal", "image")


def gen_save(rng):
    save = []
    for _ in range(rng.randint(1, 3)):
        d = {}
        for b in rng.sample(BUCKETS, rng.randint(1, 2)):
            fm = rng.sample(["npy", "fits"], rng.randint(1, 2))
            if b == "image" and rng.random() < 0.3:
                fm.append("jpg")
                rng.shuffle(fm)  # a picture format may come before the lossless ones
            d[f"detector.{b}.array"] = fm
        save.append(d)
    # one (bucket, format) request may appear once only (two requests would map to one file name);
    # the same bucket may well be requested in several entries with other formats
    seen, out = set(), []
    for d in save:
        d2 = {}
        for k, fm in d.items():
            keep = [f for f in fm if (k, f) not in seen]
            seen.update((k, f) for f in keep)
            if keep:
                d2[k] = keep
        if d2:
            out.append(d2)
    return out


def gen_start(rng):
    op = {"op": "start", "via": rng.choice(["api", "api", "file"]), "kind": rng.choice(["exposure", "exposure", "obs-seq", "obs-par"]), "save": gen_save(rng), "custom_dir": rng.choice(["", "", "cal_"]), "levels": rng.sample([2, 3, 5, 8], rng.randint(2, 3)), "fault": None, "sched": obs.gen_sched(rng, preemptive_ok=False)}
    if op["kind"] != "exposure" and op["via"] == "api" and rng.random() < 0.4:
        # sequential mode over two parameters whose value lists contain the configured defaults: several runs then have
        # identical parameter values, and each of them still owns its files
        op["obs_mode"] = "sequential"
        op["levels"].insert(rng.randint(0, len(op["levels"])), 1)
        op["temps"] = [None, rng.choice([5.0, 10.0])]  # None = the detector's configured temperature
        rng.shuffle(op["temps"])
    if op["kind"] != "exposure" and rng.random() < 0.4:
        op["pipeline_seed"] = rng.randrange(1, 2**31)
    if op["kind"] in ("exposure", "obs-seq") and op["via"] == "api" and rng.random() < 0.25:
        # afterwards the same buckets are saved once more into the same folder under an already used run number
        op["resave"] = rng.choice([0, 0, 1, "auto", "auto"])  # "auto": a dozen more saves with automatic numbering
    return op


def generate(rng, tier):
    scn = {
        "detector": world.gen_detector(rng, types=("CCD", "CMOS")),
        "readout": {"times": [1.0, 2.0][: rng.randint(1, 2)], "start_time": 0.0, "non_destructive": False},
        "clock0": 1_700_000_000 + rng.randrange(10_000_000),
        "ops": [],
    }
    scn["detector"]["adc_bit_resolution"] = 16
    n = rng.randint(2, 5)
    for _ in range(n):
        r = rng.random()
        if r < 0.5:
            op = gen_start(rng)
            if rng.random() < 0.15:
                op["fault"] = {"op": rng.choice(["mkdir", "np.save", "fits.writeto"]), "nth": rng.randint(0, 1), "errno": rng.choice(["EACCES", "ENOSPC"])}
            scn["ops"].append(op)
        elif r < 0.7:
            scn["ops"].append({"op": "clock", "dt": rng.choice([0.0, 0.3, 0.3, 1.5, -5.0])})
        elif r < 0.82:
            scn["ops"].append({"op": "prepopulate", "what": rng.choice(["dir", "dir", "stray"]), "custom_dir": rng.choice(["", "cal_"])})
        else:
            scn["ops"].append({"op": "concurrent", "k": rng.randint(2, 3), "save": gen_save(rng), "custom_dir": "", "sched": {"policy": rng.choice(["random", "preempt", "pct", "lifo"]), "workers": 4, "preempt_p": rng.choice([0.3, 0.6]), "pct_d": 3, "sim_seed": rng.randrange(2**31)}})
    if not any(o["op"] in ("start", "concurrent") for o in scn["ops"]):
        scn["ops"].append(gen_start(rng))
    return scn


def shrink(scn):
    for i in range(len(scn["ops"])):
        c = copy.deepcopy(scn)
        del c["ops"][i]
        if any(o["op"] in ("start", "concurrent") for o in c["ops"]):
            yield c
    for i, o in enumerate(scn["ops"]):
        if o["op"] in ("start", "concurrent"):
            if len(o["save"]) > 1:
                for j in range(len(o["save"])):
                    c = copy.deepcopy(scn)
                    del c["ops"][i]["save"][j]
                    yield c
            for j, d in enumerate(o["save"]):
                if len(d) > 1:
                    for k in list(d):
                        c = copy.deepcopy(scn)
                        del c["ops"][i]["save"][j][k]
                        yield c
            if o["op"] == "concurrent" and o["k"] > 2:
                c = copy.deepcopy(scn)
                c["ops"][i]["k"] = 2
                yield c
    if len(scn["readout"]["times"]) > 1:
        c = copy.deepcopy(scn)
        c["readout"]["times"] = c["readout"]["times"][:1]
        yield c


def world_for(scn, op, out_dir, level_default=1):
    s = {
        "detector": scn["detector"],
        "pipeline": {"photon_collection": [{"name": "src", "func": world.PROBE, "enabled": True, "arguments": {"tag": "src", "level": level_default, "write": ["photon", "pixel", "signal", "image"], "image_dtype": "uint16"}}]},
        "readout": scn["readout"],
        "outputs": {"output_folder": out_dir, "custom_dir_name": op.get("custom_dir", ""), "save_data_to_file": copy.deepcopy(op["save"])},
    }
    kind = op.get("kind", "exposure")
    if kind == "exposure":
        s["mode"] = {"kind": "exposure"}
    else:
        s["mode"] = {"kind": "observation", "obs_mode": op.get("obs_mode", "product"), "with_dask": kind == "obs-par", "parameters": [{"key": "pipeline.photon_collection.src.arguments.level", "values": op["levels"], "enabled": True}]}
        if op.get("temps"):
            t0 = float(scn["detector"]["temperature"])
            s["mode"]["parameters"].append({"key": "detector.environment.temperature", "values": [t0 if t is None else t0 + t for t in op["temps"]], "enabled": True})
        if op.get("pipeline_seed"):
            s["mode"]["pipeline_seed"] = op["pipeline_seed"]
    return s


def listing(root):
    out = {}
    for dp, dn, fn in os.walk(root):
        for d in dn:
            out[os.path.join(dp, d)] = "dir"
        for f in fn:
            p = os.path.join(dp, f)
            with open(p, "rb") as fh:
                out[p] = hashlib.sha256(fh.read()).hexdigest()
    return out


def read_back(path):
    try:
        if path.endswith(".npy"):
            return np.load(path)
        if path.endswith(".fits"):
            from astropy.io import fits

            return np.asarray(fits.getdata(path))
    except Exception:  # noqa: BLE001 - not a file this run can have written
        return np.array([["unreadable"]], dtype=object)
    return None


def expected_requests(op):
    out = []
    for d in op["save"]:
        for name, fmts in d.items():
            b = name.split(".")[1]
            for f in fmts:
                out.append((b, f))
    return out


def check_run(scn, s, op, mode, tree, before, viol, stats, feat, seen_dirs):
    """Oracles for one finished start."""
    folder = str(mode.outputs.current_output_folder)
    if folder in before:
        viol.append({"clause": "C19.fresh-directory", "signature": f"C19.directory-existed-before@{feat}", "detail": folder})
    if folder in seen_dirs:
        viol.append({"clause": "C19.fresh-directory", "signature": f"C19.directory-shared-between-runs@{feat}", "detail": folder})
    seen_dirs.add(folder)
    if not os.path.isdir(folder):
        viol.append({"clause": "C19.fresh-directory", "signature": f"C19.directory-missing@{feat}", "detail": folder})
        return
    kind = op.get("kind", "exposure")
    reqs = expected_requests(op)
    if "output" not in tree.children:
        viol.append({"clause": "C19.complete", "signature": f"C19.no-output-node@{feat}", "detail": sorted(tree.children)})
        return
    outnode = tree["/output"]
    if kind == "exposure":
        combos, idx = [{}], [None]
    else:
        combos, idx = obs.expected_space(s)
    en = [p for p in s["mode"].get("parameters", []) if p.get("enabled", True)]
    names = select.dim_names([p["key"] for p in en]) if en else {}
    reported_all = []
    for b in sorted({b for b, _ in reqs}):
        fmts = [f for bb, f in reqs if bb == b]
        if b not in outnode.children:
            viol.append({"clause": "C19.complete", "signature": f"C19.bucket-not-reported@{feat}" + ("+multi-key" if any(len(d) > 1 for d in op["save"]) else ""), "detail": {"bucket": b, "reported": sorted(outnode.children), "save": op["save"]}})
            continue
        ds = outnode[b].to_dataset()
        da = ds["filename"]
        fdim = "extension" if "extension" in da.dims else ("data_format" if "data_format" in da.dims else None)
        for r, (combo, ix) in enumerate(zip(combos, idx)):
            try:
                sel = select.positions(ds, names, combo, ix, r) if combo else {}
            except select.LabelError as exc:
                viol.append({"clause": "C19.complete", "signature": f"C19.run-not-reported@{feat}", "detail": {"bucket": b, "run": r, "why": str(exc)[:200]}})
                continue
            sub = da.isel(sel)
            labels = [str(x) for x in (sub[fdim].values if fdim else [])]
            files = [str(x) for x in np.atleast_1d(sub.values)]
            if sorted(labels) != sorted(fmts):
                viol.append({"clause": "C19.complete", "signature": f"C19.formats-reported@{feat}", "detail": {"bucket": b, "run": r, "reported_formats": labels, "requested": fmts}})
                continue
            want = ref.simulate(s, overrides=combo)["steps"][-1][b]
            for lab, fn in zip(labels, files):
                path = fn if os.path.isabs(fn) else os.path.join(folder, fn)
                reported_all.append(path)
                if not path.startswith(folder + os.sep):
                    viol.append({"clause": "C19.attributed", "signature": f"C19.file-outside-run-directory@{feat}", "detail": {"file": path, "folder": folder}})
                if not os.path.isfile(path):
                    viol.append({"clause": "C19.exists", "signature": f"C19.reported-file-missing@{feat}+{lab}", "detail": {"file": path}})
                    continue
                if not path.endswith("." + lab) and not (lab in ("jpg", "jpeg") and path.endswith((".jpg", ".jpeg"))):
                    viol.append({"clause": "C19.attributed", "signature": f"C19.wrong-extension@{feat}", "detail": {"file": path, "format": lab}})
                got = read_back(path)
                if got is not None:
                    if got.dtype == object or got.shape != np.asarray(want).shape or not np.array_equal(got.astype(float), np.asarray(want, dtype=float)):
                        viol.append({"clause": "C19.attributed", "signature": f"C19.file-content@{feat}+{lab}", "detail": {"file": os.path.basename(path), "bucket": b, "run": r, "combo": combo, "got": got.ravel()[:3].tolist(), "want": np.asarray(want).ravel()[:3].tolist()}})
    if len(reported_all) != len(set(reported_all)):
        viol.append({"clause": "C19.bijection", "signature": f"C19.one-file-reported-twice@{feat}", "detail": sorted(reported_all)})


def _resave(s, op, mode, viol, stats, feat):
    """Colliding names inside the run folder: saving again under a used run number may fail, but never costs a file."""
    import pyxel
    from pyxel.exposure import Exposure
    from pyxel.pipelines import Processor

    folder = str(mode.outputs.current_output_folder)
    s2 = {k2: v2 for k2, v2 in s.items() if k2 != "outputs"}
    s2["mode"] = {"kind": "exposure"}
    _m, det2, pipe2 = world.build_python(s2)
    pyxel.run_mode(mode=Exposure(readout=world.build_readout(s["readout"])), detector=det2, pipeline=pipe2, with_inherited_coords=True)
    before = listing(folder)
    raised = None
    if op["resave"] == "auto":
        # automatic numbering: every further save takes the next free number, whatever the count
        stats["auto_numbered_saves"] = 1
        proc = Processor(detector=det2, pipeline=pipe2)
        for n9 in range(12):
            snap9 = listing(folder)
            try:
                mode.outputs.save_to_file(processor=proc)
            except Exception as exc:  # noqa: BLE001
                viol.append({"clause": "C19.no-clobber", "signature": f"C19.auto-numbered-save-fails@{feat}", "detail": {"save": n9 + 1, "exc": repr(exc)[:200]}})
                break
            now9 = listing(folder)
            gone = [os.path.basename(p9) for p9, d9 in snap9.items() if now9.get(p9) != d9]
            if gone:
                viol.append({"clause": "C19.no-clobber", "signature": f"C19.existing-file-overwritten@{feat}+auto-numbered", "detail": {"save": n9 + 1, "files": gone[:3]}})
                break
            if len(now9) <= len(snap9):
                viol.append({"clause": "C19.complete", "signature": f"C19.auto-numbered-save-wrote-nothing@{feat}", "detail": {"save": n9 + 1}})
                break
        return
    try:
        mode.outputs.save_to_file(processor=Processor(detector=det2, pipeline=pipe2), run_number=op["resave"])
    except Exception as exc:  # noqa: BLE001
        raised = exc
    after = listing(folder)
    stats["resave_collision" if raised is not None else "resave_no_collision"] = 1
    for path, dig in before.items():
        if path not in after:
            viol.append({"clause": "C19.no-clobber", "signature": f"C19.existing-file-removed@{feat}+resave", "detail": {"file": os.path.basename(path), "second_save": repr(raised)[:160]}})
        elif after[path] != dig:
            viol.append({"clause": "C19.no-clobber", "signature": f"C19.existing-file-overwritten@{feat}+resave", "detail": {"file": os.path.basename(path), "second_save": repr(raised)[:160]}})


def check_file_run(scn, s, op, scratch, out_dir, before, fs, viol, stats, feat, seen_dirs, k):
    """Start through the file entry point pyxel.run(<yaml>) and check the table of file names it returns."""
    import dask
    import pyxel

    cfg_path = os.path.join(scratch, f"cfg_{k}.yaml")
    with open(cfg_path, "w") as fh:
        fh.write(world.to_yaml(s))
    cwd = os.getcwd()
    os.chdir(scratch)  # pyxel.run moves './pyxel.log' into the output folder
    try:
        with fs.active(), dask.config.set(scheduler="sync"):
            df = pyxel.run(cfg_path)
    finally:
        os.chdir(cwd)
    if sum(fs.fired.values()):
        viol.append({"clause": "C19.fs-fault", "signature": f"C19.fs-fault-swallowed@{feat}+{op['fault']['op']}", "detail": op["fault"]})
        return
    after = listing(out_dir)
    new_dirs = sorted(p for p, d in after.items() if d == "dir" and p not in before and os.path.dirname(p) == out_dir)
    if len(new_dirs) != 1:
        viol.append({"clause": "C19.fresh-directory", "signature": f"C19.not-exactly-one-new-directory@{feat}", "detail": [p.replace(out_dir, "") for p in new_dirs]})
        return
    folder = new_dirs[0]
    if folder in seen_dirs:
        viol.append({"clause": "C19.fresh-directory", "signature": f"C19.directory-shared-between-runs@{feat}", "detail": folder})
    seen_dirs.add(folder)
    reqs = expected_requests(op)
    if df is None:
        viol.append({"clause": "C19.complete", "signature": f"C19.no-filename-table@{feat}", "detail": None})
        return
    kind = op["kind"]
    combos = [{}] if kind == "exposure" else obs.expected_space(s)[0]
    fcol = "extension" if "extension" in df.columns else "data_format"
    rows = df.to_dict(orient="records")
    for b, fmt in reqs:
        for combo in combos:
            lvl = list(combo.values())[0] if combo else None
            hits = [r for r in rows if str(r[fcol]) == fmt and f"_{b}" in str(r["filename"]) and (lvl is None or float(r.get("level")) == float(lvl))]
            if len(hits) != 1:
                viol.append({"clause": "C19.complete", "signature": f"C19.filename-table-rows@{feat}", "detail": {"bucket": b, "format": fmt, "level": lvl, "rows_found": len(hits), "columns": list(df.columns)}})
                continue
            path = os.path.join(folder, str(hits[0]["filename"]))
            if not os.path.isfile(path):
                viol.append({"clause": "C19.exists", "signature": f"C19.reported-file-missing@{feat}+{fmt}", "detail": {"file": path.replace(out_dir, "")}})
                continue
            want = ref.simulate(s, overrides=combo)["steps"][-1][b]
            got = read_back(path)
            if got is not None and (got.dtype == object or got.shape != np.asarray(want).shape or not np.array_equal(got.astype(float), np.asarray(want, dtype=float))):
                viol.append({"clause": "C19.attributed", "signature": f"C19.file-content@{feat}+{fmt}", "detail": {"file": os.path.basename(path), "bucket": b, "level": lvl}})
    if not os.path.isfile(os.path.join(folder, "output_filenames.csv")):
        viol.append({"clause": "C19.complete", "signature": f"C19.no-filename-csv@{feat}", "detail": None})


def execute(scn, forced=None):
    import pyxel
    import pyxel.outputs.outputs as po

    world.reset_process_state()
    viol, stats = [], {}
    clock = seams.SimClock(start=float(scn["clock0"]))
    clock.auto_advance = 0.0
    saved_dt = po.datetime
    po.datetime = seams.make_sim_datetime(clock)
    seen_dirs: set[str] = set()
    last_start_second = None
    h = hashlib.sha256()
    nontrivial = False
    sim_info = {}
    try:
        with world.Scratch() as scratch:
            out_dir = os.path.join(scratch, "out")
            os.makedirs(out_dir)
            for k, op in enumerate(scn["ops"]):
                if op["op"] == "clock":
                    clock.t += op["dt"]
                    if op["dt"] < 0:
                        stats["clock_backwards"] = 1
                    continue
                if op["op"] == "prepopulate":
                    import datetime as _dt

                    stamp = _dt.datetime.fromtimestamp(clock.t).strftime("%Y%m%d_%H%M%S")
                    if op["what"] == "dir":
                        d = os.path.join(out_dir, f"{op['custom_dir'] or 'run_'}{stamp}")
                        os.makedirs(d, exist_ok=True)
                        with open(os.path.join(d, "detector_image.npy"), "wb") as fh:
                            fh.write(b"precious user data")
                        stats["prepopulated_dir"] = 1
                    else:
                        with open(os.path.join(out_dir, "detector_image.npy"), "wb") as fh:
                            fh.write(b"stray file in parent")
                    nontrivial = True
                    continue
                before = listing(out_dir)
                sec = int(clock.t)
                if last_start_second == sec:
                    stats["same_second_starts"] = 1
                    nontrivial = True
                last_start_second = sec
                if any(len(d) > 1 for d in op["save"]):
                    stats["multi_key_mapping"] = 1
                bl = [k2 for d in op["save"] for k2 in d]
                if len(bl) != len(set(bl)):
                    stats["bucket_in_several_entries"] = 1
                for _, f in expected_requests(op):
                    stats["fmt:" + f] = 1
                for d9 in op["save"]:
                    for fm9 in d9.values():
                        pics = [i9 for i9, f9 in enumerate(fm9) if f9 in ("jpg", "png")]
                        if pics and pics[0] < len(fm9) - 1:
                            stats["picture_format_before_lossless"] = 1
                if op["op"] == "start":
                    kind = op["kind"]
                    stats["kind:" + kind] = 1
                    feat = kind
                    s = world_for(scn, op, out_dir)
                    if op.get("obs_mode") == "sequential":
                        stats["runs_with_identical_parameters"] = 1
                        feat = kind + "+sequential"
                    if op.get("pipeline_seed"):
                        stats["seeded_observation"] = 1
                    probes.reset()
                    fs = seams.FsSeam()
                    if op.get("fault"):
                        fs.faults = [dict(op["fault"])]
                        nontrivial = True
                    exc, tree, mode = None, None, None
                    if op.get("via") == "file":
                        stats["via:file"] = 1
                        feat = kind + "+pyxel.run"
                        try:
                            check_file_run(scn, s, op, scratch, out_dir, before, fs, viol, stats, feat, seen_dirs, k)
                        except sched.HarnessError:
                            raise
                        except Exception as e:  # noqa: BLE001
                            if sum(fs.fired.values()):
                                stats["fault:" + ("mkdir" if op["fault"]["op"] == "mkdir" else "write")] = 1
                            else:
                                viol.append({"clause": "C19.runs", "signature": f"C19.start-raises:{type(e).__name__}@{feat}", "detail": {"exc": repr(e)[:300], "tb": traceback.format_exc(limit=4)[-600:], "save": op["save"]}})
                        after = listing(out_dir)
                        for path, dig in before.items():
                            if path not in after or after[path] != dig:
                                viol.append({"clause": "C19.no-clobber", "signature": f"C19.preexisting-changed@{feat}", "detail": path.replace(out_dir, "")})
                        h.update(repr(sorted((p2.replace(scratch, ""), d2) for p2, d2 in after.items() if not p2.endswith((".log", ".csv", ".yaml")))).encode())
                        if viol:
                            break
                        continue
                    try:
                        mode, det, pipe = world.build_python(s)
                        with fs.active():
                            if kind == "obs-par":
                                sc = op["sched"]
                                sim = sched.Sim(random.Random(sc["sim_seed"]), policy=sc["policy"], workers=sc["workers"], preempt_p=sc["preempt_p"], pct_d=sc["pct_d"], forced=forced)
                                with sim.running():
                                    tree = pyxel.run_mode(mode=mode, detector=det, pipeline=pipe, with_inherited_coords=True).compute()
                                sim_info = {"digest": sim.digest(), "decisions": list(sim.decisions), "now": sim.now}
                            else:
                                tree = pyxel.run_mode(mode=mode, detector=det, pipeline=pipe, with_inherited_coords=True)
                    except sched.HarnessError:
                        raise
                    except Exception as e:  # noqa: BLE001
                        exc = e
                        tb = traceback.format_exc(limit=4)
                    fired = sum(fs.fired.values())
                    if fired:
                        stats["fault:" + ("mkdir" if op["fault"]["op"] == "mkdir" else "write")] = 1
                        if exc is None:
                            viol.append({"clause": "C19.fs-fault", "signature": f"C19.fs-fault-swallowed@{feat}+{op['fault']['op']}", "detail": op["fault"]})
                    elif exc is not None:
                        if type(exc).__name__ == "SimDeadlock":
                            viol.append({"clause": "C19.liveness", "signature": f"C19.liveness@{feat}", "detail": str(exc)})
                        else:
                            viol.append({"clause": "C19.runs", "signature": f"C19.start-raises:{type(exc).__name__}@{feat}", "detail": {"exc": repr(exc)[:300], "tb": tb[-600:], "save": op["save"]}})
                    elif tree is not None:
                        check_run(scn, s, op, mode, tree, before, viol, stats, feat, seen_dirs)
                        if op.get("resave") is not None and not viol:
                            _resave(s, op, mode, viol, stats, feat)
                else:  # concurrent exposure starters
                    stats["concurrent_starts"] = 1
                    nontrivial = True
                    feat = "concurrent-exposures"
                    sc = op["sched"]
                    sim = sched.Sim(random.Random(sc["sim_seed"]), policy=sc["policy"], workers=sc["workers"], preempt_p=sc["preempt_p"], pct_d=sc["pct_d"], forced=forced)
                    fs = seams.FsSeam()
                    jobs = []
                    for u in range(op["k"]):
                        su = world_for(scn, dict(op, kind="exposure"), out_dir, level_default=2 + u)
                        jobs.append((su, world.build_python(su)))
                    results = {}

                    def starter(u, objs):
                        m, d, p = objs
                        results[u] = pyxel.run_mode(mode=m, detector=d, pipeline=p, with_inherited_coords=True)

                    try:
                        with fs.active(), sim.running():
                            futs = [sim.spawn(f"user:{u}", starter, u, objs) for u, (_su, objs) in enumerate(jobs)]
                            sim.join(futs)
                        errs = [f.exception() for f in futs if f.exception() is not None]
                    except sched.SimDeadlock as e:
                        errs = [e]
                    sim_info = {"digest": sim.digest(), "decisions": list(sim.decisions), "now": sim.now}
                    mk = [e for e in fs.log if e[1] == "mkdir"]
                    if len(mk) > op["k"]:
                        stats["mkdir_lost_race"] = 1
                    if errs:
                        e0 = errs[0]
                        sig = f"C19.liveness@{feat}" if type(e0).__name__ == "SimDeadlock" else f"C19.start-raises:{type(e0).__name__}@{feat}"
                        viol.append({"clause": "C19.runs", "signature": sig, "detail": repr(e0)[:300]})
                    else:
                        for u, (su, objs) in enumerate(jobs):
                            check_run(scn, su, dict(op, kind="exposure"), objs[0], results[u], before, viol, stats, feat, seen_dirs)
                # nothing that existed before may have changed
                after = listing(out_dir)
                for path, dig in before.items():
                    if path not in after:
                        viol.append({"clause": "C19.no-clobber", "signature": f"C19.preexisting-removed@{feat}", "detail": path.replace(out_dir, "")})
                    elif after[path] != dig:
                        viol.append({"clause": "C19.no-clobber", "signature": f"C19.preexisting-overwritten@{feat}", "detail": path.replace(out_dir, "")})
                h.update(repr(sorted((p.replace(scratch, ""), d) for p, d in after.items() if not p.endswith((".log", ".csv", ".yaml")))).encode())
                if viol:
                    break
    finally:
        po.datetime = saved_dt
    seen, uniq = set(), []
    for v in viol:
        if v["signature"] not in seen:
            seen.add(v["signature"])
            uniq.append(v)
    return {
        "violations": uniq,
        "stats": stats,
        "nontrivial": nontrivial,
        "key": hashlib.sha256(engine.jdump([(o["op"], o.get("kind"), o.get("dt"), o.get("what"), o.get("k"), [sorted((k2, tuple(v2)) for k2, v2 in d.items()) for d in o.get("save", [])], bool(o.get("fault"))) for o in scn["ops"]]).encode()).hexdigest()[:16],
        "digest": h.hexdigest()[:16] + ":" + (sim_info.get("digest") or ""),
        "sim_time": float(sim_info.get("now") or 0.0) + sum(abs(o.get("dt", 0.0)) for o in scn["ops"] if o["op"] == "clock"),
        "decisions": sim_info.get("decisions") or [],
        "sample": {"ops": [{k2: v2 for k2, v2 in o.items() if k2 not in ("sched", "levels")} for o in scn["ops"]]},
    }
