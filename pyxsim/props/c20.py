"""C20 — input files are read and placed on the detector faithfully."""

from __future__ import annotations

import copy
import hashlib
import os

import numpy as np

from .. import engine, probes, world

ID = "C20"
LEVEL = "exploration"
FORCED_OK = False
MAX_REPORTS = 8
TECHNIQUE = "deterministic simulation in which the file content is history: a seeded operation sequence writes and REwrites input files (npy, FITS, text with five delimiters; optionally with size and modification time preserved) on a scratch filesystem between loader calls and between simulated exposures using load_image / load_charge with offsets or alignment keywords, several runs per process; oracles: loaders return the last written content, the bucket equals an independent pixel-by-pixel placement, non-overlapping inputs are rejected"
LEVEL_TEXT = "seeded exploration of write / rewrite / load / run histories x formats x delimiters x detector and image shapes x offsets (negative, zero, beyond) x five alignment keywords"
LEVEL_NOTE = "trusted: the reference placement out[y, x] = in[y - py, x - px] where defined else 0 (alignment offsets computed from the documented meaning of the keywords); text files are written with repr-exact formatting so values must round-trip bit-exactly; the opt-in cache option stays at its default (off)"
RULE = (
    "history of 3..9 operations on 1..2 paths: write(path, format, array) including rewrites of an existing path (mtime/size preserved or not), load_image(path), load_table(path), run(exposure with load_image or load_charge at a drawn position / alignment); "
    "distinct = distinct (operation kinds, formats, placement classes); non-trivial = a path is rewritten between two reads/runs, or the placement is partial (input smaller/larger than the detector or shifted)"
)
ASSUMPTIONS = [
    "FITS inputs come in two layouts: image in the primary HDU, or empty primary HDU with the image in the first extension (the version keyword is in both headers); a rewrite may change the layout of a path",
    "alignment keywords follow the library's documented convention (row 0 is the bottom row): the reference places bottom_left at offset (0, 0), top_right at (rows - in_rows, cols - in_cols), center at the truncated half difference",
    "a run must reflect the file content at the time of the run; only the default cache_enabled=False configuration is exercised",
    "FITS files are written with astropy, text files with numpy.savetxt(fmt='%.17g')",
]
COMPONENTS = {"real": ["pyxel.inputs.load_image / load_table", "pyxel.util.fit_into_array / load_cropped_and_aligned_image", "load_image and load_charge models inside run_mode", "real scratch filesystem (fsspec local)"], "stub": []}
BUDGET = {"quick": {"n": 800, "wall": 100, "determinism": 4}, "thorough": {"n": 400000, "wall": 1500, "determinism": 12}}
REQUIRED_REACH = ["home_relative_paths", "header_loaded", "relative_to_working_directory", "second_working_directory", "op:write", "fits_image_in_first_extension", "op:load_image", "op:load_table", "op:run", "rewrite_then_run", "rewrite_same_mtime_size", "fmt:npy", "fmt:fits", "fmt:txt", "delim:tab", "delim:space", "delim:comma", "delim:bar", "delim:semicolon", "place:offset", "place:align", "no_overlap_rejected", "input_larger", "input_smaller", "model:load_image", "model:load_charge"]

DELIMS = {"tab": "\t", "space": " ", "comma": ",", "bar": "|", "semicolon": ";"}
ALIGNS = ["center", "top_left", "top_right", "bottom_left", "bottom_right"]


def gen_write(rng, path_id, shape=None):
    fmt = rng.choice(["npy", "npy", "fits", "txt"])
    rows, cols = shape or (rng.randint(1, 7), rng.randint(2, 7))
    return {"op": "write", "path": path_id, "fmt": fmt, "delim": rng.choice(sorted(DELIMS)) if fmt == "txt" else None, "rows": rows, "cols": cols, "salt": rng.randint(1, 99), "kind": rng.choice(["int", "float", "float"]), "keep_stat": False}


def generate(rng, tier):
    det_rows, det_cols = rng.randint(2, 6), rng.randint(2, 6)
    ops = [gen_write(rng, 0)]
    written = {0: ops[0]}
    for _ in range(rng.randint(2, 8)):
        r = rng.random()
        if r < 0.3:
            pid = rng.choice([0, 0, 1])
            if pid in written:
                # rewrite: same format (same path), usually same shape
                prev = written[pid]
                w = gen_write(rng, pid, shape=(prev["rows"], prev["cols"]) if rng.random() < 0.7 else None)
                w["fmt"], w["delim"] = prev["fmt"], prev["delim"]
                w["keep_stat"] = rng.random() < 0.4 and (w["rows"], w["cols"]) == (prev["rows"], prev["cols"]) and w["kind"] == prev["kind"]
            else:
                w = gen_write(rng, pid)
            ops.append(w)
            written[pid] = w
        elif r < 0.45:
            ops.append({"op": "load_image", "path": rng.choice(sorted(written))})
        elif r < 0.55:
            ops.append({"op": "load_table", "path": rng.choice(sorted(written))})
        else:
            pid = rng.choice(sorted(written))
            w = written[pid]
            place = rng.choice(["offset", "offset", "align"])
            if place == "offset":
                cls = rng.choice(["zero", "inside", "negative", "beyond"])
                if cls == "zero":
                    pos = [0, 0]
                elif cls == "inside":
                    pos = [rng.randint(0, det_rows - 1), rng.randint(0, det_cols - 1)]
                elif cls == "negative":
                    pos = [-rng.randint(0, w["rows"] + 1), -rng.randint(0, w["cols"] + 1)]
                else:
                    pos = [det_rows + rng.randint(0, 2), rng.randint(0, det_cols - 1)] if rng.random() < 0.5 else [rng.randint(0, det_rows - 1), det_cols + rng.randint(0, 2)]
                ops.append({"op": "run", "path": pid, "model": rng.choice(["load_image", "load_charge"]), "position": pos, "align": None, "steps": rng.randint(1, 2), "header": rng.random() < 0.6})
            else:
                ops.append({"op": "run", "path": pid, "model": rng.choice(["load_image", "load_charge"]), "position": [0, 0], "align": rng.choice(ALIGNS), "steps": 1, "header": rng.random() < 0.6})
    scn = {"det_type": rng.choice(["CCD", "CMOS"]), "rows": det_rows, "cols": det_cols, "ops": ops}
    # input paths relative to the configured working directory (optionally a second directory holding
    # another file under the same relative name)
    scn["relative"] = rng.random() < 0.4
    if scn["relative"] and rng.random() < 0.5:
        k = rng.randint(1, len(ops))
        ops.insert(k, {"op": "switch_wd", "path": 0})
    # or: paths written with '~' (the user's home directory is the scenario's scratch directory)
    scn["home"] = (not scn["relative"]) and rng.random() < 0.25
    return scn


def shrink(scn):
    for i in range(1, len(scn["ops"])):
        c = copy.deepcopy(scn)
        del c["ops"][i]
        paths_written = set()
        ok = True
        for o in c["ops"]:
            if o["op"] == "write":
                paths_written.add(o["path"])
            elif o["path"] not in paths_written:
                ok = False
        if ok:
            yield c


def make_array(w):
    n = w["rows"] * w["cols"]
    base = np.arange(n, dtype=float).reshape(w["rows"], w["cols"]) + w["salt"]
    if w["kind"] == "float":
        base = base * 1.25 + 0.1 * w["salt"]
    return base


def fits_in_extension(w) -> bool:
    """decided by the version number of the file, so a rewrite may change the layout of the same path"""
    return w["fmt"] == "fits" and int(w["salt"]) % 3 == 0


def write_file(path, w, arr):
    if w["fmt"] == "npy":
        np.save(path, arr)
    elif w["fmt"] == "fits":
        from astropy.io import fits

        hdr = fits.Header()
        hdr["PYXVER"] = int(w["salt"])  # a keyword that identifies this version of the file
        if fits_in_extension(w):
            # the usual multi-extension product layout: an empty primary HDU, the image in the first extension
            fits.HDUList([fits.PrimaryHDU(header=hdr), fits.ImageHDU(arr, header=hdr)]).writeto(path, overwrite=True)
        else:
            fits.writeto(path, arr, header=hdr, overwrite=True)
    else:
        np.savetxt(path, arr, delimiter=DELIMS[w["delim"]], fmt="%.17g")


def reference_place(arr, rows, cols, position, align):
    """Independent placement: out[y, x] = in[y - py, x - px] where defined, else 0; None if no overlap."""
    iy, ix = arr.shape
    if align:
        if align == "center":
            py, px = int((rows - iy) / 2), int((cols - ix) / 2)
        elif align == "top_left":
            py, px = rows - iy, 0
        elif align == "top_right":
            py, px = rows - iy, cols - ix
        elif align == "bottom_left":
            py, px = 0, 0
        else:
            py, px = 0, cols - ix
    else:
        py, px = position
    out = np.zeros((rows, cols))
    hit = False
    for y in range(rows):
        for x in range(cols):
            sy, sx = y - py, x - px
            if 0 <= sy < iy and 0 <= sx < ix:
                out[y, x] = arr[sy, sx]
                hit = True
    return out if hit else None


def execute(scn):
    home = os.environ.get("HOME")
    try:
        return _execute(scn)
    finally:
        if home is None:
            os.environ.pop("HOME", None)
        else:
            os.environ["HOME"] = home


def _execute(scn):
    import pyxel
    from pyxel.exposure import Exposure, Readout
    from pyxel.pipelines import DetectionPipeline, ModelFunction

    world.reset_process_state()
    rows, cols = scn["rows"], scn["cols"]
    spec = world.gen_detector(__import__("random").Random(3), types=(scn["det_type"],))
    spec.update({"row": rows, "col": cols})
    viol, stats = [], {}
    h = hashlib.sha256()
    content: dict[int, np.ndarray] = {}
    meta: dict[int, dict] = {}
    read_since_write: dict[int, bool] = {}
    run_before: dict[int, bool] = {}  # a model already loaded this path (an earlier version may be cached)
    stale_risk: dict[int, bool] = {}
    nontrivial = False

    def bad(clause, sig, detail):
        viol.append({"clause": clause, "signature": sig, "detail": detail})

    with world.Scratch() as scratch_root:
        scratch = os.path.join(scratch_root, "wd0")
        os.makedirs(scratch)
        if scn.get("home"):
            os.environ["HOME"] = scratch_root
            stats["home_relative_paths"] = 1
        if scn.get("relative"):
            pyxel.set_options(working_directory=scratch)
            stats["relative_to_working_directory"] = 1
        for k, op in enumerate(scn["ops"]):
            stats["op:" + op["op"]] = stats.get("op:" + op["op"], 0) + 1
            pid = op["path"]
            if op["op"] == "switch_wd":
                # a second working directory: the same relative names now denote other (not yet written) files
                scratch = os.path.join(scratch_root, "wd1")
                os.makedirs(scratch, exist_ok=True)
                pyxel.set_options(working_directory=scratch)
                stats["second_working_directory"] = 1
                for q in list(content):
                    w0 = dict(meta[q])
                    w0["salt"] = w0["salt"] + 100
                    arr0 = make_array(w0)
                    write_file(os.path.join(scratch, f"input_{q}.{w0['fmt']}"), w0, arr0)
                    stale_risk[q] = bool(run_before.get(q))
                    content[q], meta[q] = arr0, dict(w0, rewritten=True, stat_kept=False)
                    read_since_write[q] = False
                continue
            w = op if op["op"] == "write" else meta[pid]
            ext = {"npy": "npy", "fits": "fits", "txt": "txt"}[w["fmt"]]
            path = os.path.join(scratch, f"input_{pid}.{ext}")
            ref_path = f"input_{pid}.{ext}" if scn.get("relative") else (f"~/wd0/input_{pid}.{ext}" if scn.get("home") else path)  # what is handed to pyxel
            if op["op"] == "write":
                arr = make_array(op)
                stats["fmt:" + op["fmt"]] = 1
                if fits_in_extension(op):
                    stats["fits_image_in_first_extension"] = 1
                if op["delim"]:
                    stats["delim:" + op["delim"]] = 1
                st = os.stat(path) if os.path.exists(path) else None
                rewrite = st is not None
                write_file(path, op, arr)
                feat = ""
                if rewrite and op.get("keep_stat") and os.stat(path).st_size == st.st_size:
                    os.utime(path, ns=(st.st_atime_ns, st.st_mtime_ns))
                    stats["rewrite_same_mtime_size"] = 1
                if rewrite and read_since_write.get(pid):
                    nontrivial = True
                stale_risk[pid] = bool(rewrite and run_before.get(pid))
                content[pid], meta[pid] = arr, dict(op)
                meta[pid]["rewritten"] = rewrite
                meta[pid]["stat_kept"] = bool(rewrite and op.get("keep_stat"))
                read_since_write[pid] = False
                continue
            want = content[pid]
            if scn.get("relative"):
                pyxel.set_options(working_directory=scratch)  # (constructing a running mode resets the option)
            hist = ("after-rewrite" + ("+same-mtime-size" if meta[pid].get("stat_kept") else "")) if meta[pid].get("rewritten") else "first-version"
            if op["op"] == "load_image":
                try:
                    got = pyxel.load_image(ref_path)
                    if got.shape != want.shape or not np.array_equal(np.asarray(got, dtype=float), want):
                        bad("C20.loader", f"C20.load_image-values@{w['fmt']}" + (f"+{w['delim']}" if w["delim"] else "") + f"+{hist}", {"op": k, "shape": list(got.shape), "expected_shape": list(want.shape), "got": np.asarray(got, dtype=float).ravel()[:3].tolist(), "want": want.ravel()[:3].tolist()})
                except Exception as exc:  # noqa: BLE001
                    bad("C20.loader", f"C20.load_image-raises:{type(exc).__name__}@{w['fmt']}" + (f"+{w['delim']}" if w["delim"] else "") + f"+{w['rows']}x{'1' if w['cols'] == 1 else 'n'}", {"op": k, "exc": repr(exc)[:300], "shape": [w["rows"], w["cols"]]})
                read_since_write[pid] = True
            elif op["op"] == "load_table":
                if w["fmt"] == "fits":
                    continue  # load_table reads FITS *tables*, an image HDU is not a table
                try:
                    df = pyxel.load_table(ref_path)
                    got = df.to_numpy(dtype=float)
                    if got.shape != want.shape or not np.array_equal(got, want):
                        bad("C20.loader", f"C20.load_table-values@{w['fmt']}" + (f"+{w['delim']}" if w["delim"] else "") + f"+{hist}", {"op": k, "shape": list(got.shape), "expected_shape": list(want.shape), "got": got.ravel()[:3].tolist(), "want": want.ravel()[:3].tolist()})
                except Exception as exc:  # noqa: BLE001
                    bad("C20.loader", f"C20.load_table-raises:{type(exc).__name__}@{w['fmt']}" + (f"+{w['delim']}" if w["delim"] else ""), {"op": k, "exc": repr(exc)[:300], "shape": [w["rows"], w["cols"]]})
                read_since_write[pid] = True
            else:  # run
                model = op["model"]
                stats["model:" + model] = 1
                stats["place:" + ("align" if op["align"] else "offset")] = 1
                if want.shape[0] > rows or want.shape[1] > cols:
                    stats["input_larger"] = 1
                if want.shape[0] < rows or want.shape[1] < cols:
                    stats["input_smaller"] = 1
                times = [1.0, 3.0][: op["steps"]]
                det = world.build_detector(spec)
                with_header = model == "load_image" and w["fmt"] == "fits" and bool(op.get("header"))
                if model == "load_image":
                    mf = ModelFunction(func="pyxel.models.photon_collection.load_image", name="load_image", arguments={"image_file": ref_path, "position": list(op["position"]), "align": op["align"], **({"include_header": True} if with_header else {})})
                    pipe = DetectionPipeline(photon_collection=[mf])
                    bucket = "photon"
                else:
                    mf = ModelFunction(func="pyxel.models.charge_generation.load_charge", name="load_charge", arguments={"filename": ref_path, "position": list(op["position"]), "align": op["align"]})
                    pipe = DetectionPipeline(charge_generation=[mf])
                    bucket = "charge"
                exp = reference_place(want, rows, cols, op["position"], op["align"])
                place = ("align:" + op["align"]) if op["align"] else "offset"
                try:
                    tree = pyxel.run_mode(mode=Exposure(readout=Readout(times=times), working_directory=scratch if scn.get("relative") else None), detector=det, pipeline=pipe, with_inherited_coords=True)
                    raised = None
                except Exception as exc:  # noqa: BLE001
                    tree, raised = None, exc
                if exp is None:
                    stats["no_overlap_rejected"] = 1
                    if raised is None:
                        bad("C20.no-overlap", f"C20.no-overlap-accepted@{model}", {"op": k, "position": op["position"], "input_shape": list(want.shape), "detector": [rows, cols]})
                elif raised is not None:
                    bad("C20.placement", f"C20.run-raises:{type(raised).__name__}@{model}+{place}", {"op": k, "exc": repr(raised)[:300], "position": op["position"], "align": op["align"], "input_shape": list(want.shape), "detector": [rows, cols]})
                else:
                    if stale_risk.get(pid):
                        stats["rewrite_then_run"] = 1
                        nontrivial = True
                    if exp.shape != want.shape or not np.array_equal(exp[: want.shape[0], : want.shape[1]], want):
                        nontrivial = True
                    steps = [times[0] - 0.0] + [times[i] - times[i - 1] for i in range(1, len(times))]
                    got = np.asarray(tree[f"/bucket/{bucket}"].values, dtype=float)
                    for i, dtm in enumerate(steps):
                        if got[i].shape != exp.shape or not np.array_equal(got[i], exp * dtm):
                            which = "stale-content" if stale_risk.get(pid) else "placement"
                            sig = f"C20.{which}@{model}+{place}+{hist}"
                            if which == "stale-content":
                                sig = "C20.stale-content@rewrite-with-identical-mtime-and-size" if meta[pid].get("stat_kept") else "C20.stale-content@rewritten-file"
                            bad("C20.placement" if which == "placement" else "C20.current-content", sig, {"op": k, "step": i, "position": op["position"], "align": op["align"], "input_shape": list(want.shape), "detector": [rows, cols], "got": got[i].tolist(), "want": (exp * dtm).tolist()})
                            break
                    if with_header and not viol:
                        stats["header_loaded"] = 1
                        try:
                            ver = det.header["PYXVER"]
                        except Exception as exc:  # noqa: BLE001
                            ver = f"<{type(exc).__name__}>"
                        if ver != int(w["salt"]):
                            if stale_risk.get(pid):
                                stats["rewrite_then_run"] = 1
                            bad("C20.current-content", "C20.stale-header@" + ("rewritten-file" if stale_risk.get(pid) else "first-read"), {"op": k, "header_keyword": ver, "file_holds": int(w["salt"])})
                read_since_write[pid] = True
                run_before[pid] = True
            h.update(repr((k, op["op"], len(viol))).encode())
            if viol:
                break
    seen, uniq = set(), []
    for v in viol:
        if v["signature"] not in seen:
            seen.add(v["signature"])
            uniq.append(v)
    return {
        "violations": uniq,
        "stats": stats,
        "nontrivial": nontrivial,
        "key": hashlib.sha256(engine.jdump([(o["op"], o.get("fmt"), o.get("delim"), o.get("model"), o.get("align"), tuple(o.get("position") or []), o.get("keep_stat")) for o in scn["ops"]]).encode()).hexdigest()[:16],
        "digest": h.hexdigest()[:16],
        "sim_time": float(sum(3.0 if o.get("steps") == 2 else 1.0 for o in scn["ops"] if o["op"] == "run")),
        "decisions": [],
        "sample": {"detector": [rows, cols], "ops": scn["ops"][:6]},
    }


_ = probes
