"""Small executable reference model, written from the property statements.

No pyxel import here: plain Python + numpy.  It predicts what the probe model
(`pyxsim.probes.P`) leaves in every bucket at every step of every run, the
canonical order of model execution, the readout clock, and the observation
parameter spaces.
"""

from __future__ import annotations

import itertools
import math
from typing import Any, Optional

import numpy as np

CANONICAL_GROUPS = [
    "scene_generation",
    "photon_collection",
    "phasing",
    "charge_generation",
    "charge_collection",
    "charge_transfer",
    "charge_measurement",
    "signal_transfer",
    "readout_electronics",
    "data_processing",
]

BUCKETS = ("photon", "charge", "pixel", "signal", "image")

# weights chosen pairwise incommensurable enough that swapping two parameters,
# two steps or two models changes the value
W_LEVEL = 3.0
W_VEC = 0.37
W_QE = 101.0
W_TEMP = 0.013
W_STEP = 0.5
W_TSTEP = 0.071
W_ABS = 0.0093
W_MEM = 17.0
W_TAG = 1000.0


def tag_weight(tag: str) -> float:
    # deterministic, hash-seed independent
    return float(sum((i + 1) * ord(c) for i, c in enumerate(str(tag))) % 89)


def evaluate_numpy_expr(expr: str) -> list:
    """Reference evaluator for 'numpy.xxx(...)' range strings."""
    arr = eval(expr, {"__builtins__": {}}, {"numpy": np})  # noqa: S307 - our own generated strings
    arr = np.asarray(arr)
    if arr.dtype.kind == "f":
        return [float(v) for v in arr]
    return [int(v) for v in arr]


def scalar_value(args: dict, clock: dict, fields: dict, mem: int, draws: float) -> float:
    v = 1.0 + W_TAG * tag_weight(args.get("tag", "")) / 89.0
    level = args.get("level", 0.0)
    if isinstance(level, (int, float)):
        v += W_LEVEL * float(level)
    vec = args.get("vec")
    if vec is not None:
        for i, x in enumerate(np.asarray(vec, dtype=float).ravel()):
            v += (i + 1) * W_VEC * float(x)
    for _name, _w in (("aux", 0.53), ("aux2", 0.0117)):
        _a = args.get(_name)
        if isinstance(_a, (int, float)):
            v += _w * float(_a)
    mvec = args.get("mvec")
    if mvec is not None:
        v += 0.0021 * float(np.sum(np.asarray(mvec, dtype=float))) + 0.19 * len(np.asarray(mvec).ravel())
    extra = args.get("extra")
    if isinstance(extra, dict):
        v += 0.77 * float(extra.get("touched", 0))
    if args.get("use_fields"):
        v += W_QE * float(fields.get("qe", 0.0)) + W_TEMP * float(fields.get("temperature", 0.0))
    v += W_STEP * clock["pipeline_count"] + W_TSTEP * clock["time_step"] + W_ABS * clock["absolute_time"]
    v += W_MEM * mem
    v += draws
    return v


def pattern(rows: int, cols: int) -> np.ndarray:
    return (np.arange(rows * cols, dtype=float).reshape(rows, cols)) * 0.01


def bucket_array(bucket: str, v: float, rows: int, cols: int, args: dict) -> Any:
    base = v + pattern(rows, cols)
    if bucket in (args.get("dark") or ()):
        # a dark frame: the bucket is written, every element is zero
        base = np.zeros((rows, cols))
    if bucket in ("photon", "photon+"):
        return base.astype(args.get("float_dtype", "float64"))
    if bucket in ("photon3d", "photon3d+"):
        nw = int(args.get("nwave", 3))
        return np.stack([base + 0.1 * k for k in range(nw)]).astype(args.get("float_dtype", "float64"))
    if bucket in ("charge", "clusters", "clusters*2"):
        return base
    if bucket in ("pixel", "pixel=charge"):
        return base
    if bucket == "phase":
        return base * 0.5
    if bucket == "signal":
        return (base * 1e-3).astype(args.get("float_dtype", "float64"))
    if bucket == "image":
        dt = np.dtype(args.get("image_dtype", "uint16"))
        top = np.iinfo(dt).max
        return (np.floor(base * 7.0) % (float(top) + 1.0)).astype(dt)
    raise ValueError(bucket)


def clock_for(times: list, start: float, i: int) -> dict:
    t = float(times[i])
    prev = float(times[i - 1]) if i > 0 else float(start)
    return {
        "time": t,
        "time_step": t - prev,
        "absolute_time": float(start) + t,
        "pipeline_count": i,
        "is_first_readout": i == 0,
        "is_last_readout": i == len(times) - 1,
        "num_steps": len(times),
    }


def enabled_models(pipeline: dict) -> list[tuple[str, dict]]:
    out = []
    for g in CANONICAL_GROUPS:
        for m in pipeline.get(g) or []:
            if m.get("enabled", True):
                out.append((g, m))
    return out


def simulate(scn: dict, overrides: Optional[dict] = None, seed: Optional[int] = None) -> dict:
    """Predict events and per-step bucket contents of one run.

    ``overrides``: {dotted key: value} as an observation would apply them.
    Only deterministic probe features are predicted (no draws).
    Returns {"events": [(step, group, name, kwargs)], "steps": [ {bucket: array|None} ], "clocks": [...]}
    """
    det = dict(scn["detector"])
    pipeline = {g: [dict(m, arguments=dict(m.get("arguments") or {})) for m in (ms or [])] for g, ms in scn["pipeline"].items()}
    fields = {"qe": det.get("qe"), "temperature": det.get("temperature")}
    for key, val in (overrides or {}).items():
        parts = key.split(".")
        if parts[0] == "detector":
            if parts[-1] == "quantum_efficiency":
                fields["qe"] = val
            elif parts[-1] == "temperature":
                fields["temperature"] = val
            else:
                raise KeyError(key)
        elif parts[0] == "pipeline":
            _, g, name, what, *rest = parts
            for m in pipeline.get(g) or []:
                if m["name"] == name:
                    if what == "arguments":
                        m["arguments"][rest[0]] = list(val) if isinstance(val, tuple) else val
                    elif what == "enabled":
                        m["enabled"] = val
                    break
            else:
                raise KeyError(key)
        else:
            raise KeyError(key)
    rd = scn["readout"]
    times, start, nd = rd["times"], rd.get("start_time", 0.0), rd.get("non_destructive", False)
    rows, cols = det["row"], det["col"]
    events, steps, clocks = [], [], []
    pixel = np.zeros((rows, cols))
    mem: dict[str, int] = {}
    # seeded run: the probes' draws follow the legacy generator seeded once for the whole run
    rs = np.random.RandomState(seed) if seed is not None else None
    for i in range(len(times)):
        clk = clock_for(times, start, i)
        state: dict[str, Any] = {"photon": None, "charge": np.zeros((rows, cols)), "signal": None, "image": None}
        if not nd:
            pixel = np.zeros((rows, cols))
        state["pixel"] = pixel
        for g, m in enabled_models(pipeline):
            args = m["arguments"]
            events.append((i, g, m["name"], args))
            n = 0
            if args.get("stateful"):
                n = mem.get(args.get("tag", ""), 0)
                mem[args.get("tag", "")] = n + 1
            drawn = 0.0
            if rs is not None and args.get("draws") and args.get("seed") is None:
                drawn = float(sum(float(rs.random_sample()) for _ in range(int(args["draws"]))))
            v = scalar_value(args, clk, fields, n, drawn)
            for b in args.get("write") or []:
                arr = bucket_array(b, v, rows, cols, args)
                if b in ("photon", "photon3d"):
                    state["photon"] = arr
                elif b in ("photon+", "photon3d+"):
                    state["photon"] = arr if state["photon"] is None else state["photon"] + arr
                elif b == "clusters":
                    add = np.zeros((rows, cols))
                    add[0, 0] += arr[0, 0]
                    add[-1, -1] += arr[-1, -1]
                    state["charge"] = state["charge"] + add
                    state["frame"] = True
                elif b in ("scene", "data", "data_empty", "phase"):
                    pass
                elif b == "clusters*2":
                    if state.get("frame"):
                        state["charge"] = state["charge"] * 2.0
                elif b == "charge":
                    state["charge"] = state["charge"] + arr
                elif b == "pixel":
                    state["pixel"] = state["pixel"] + arr
                elif b == "pixel=charge":
                    state["pixel"] = np.array(state["charge"], dtype=float)
                else:
                    state[b] = arr
        pixel = state["pixel"]
        steps.append({k: (None if a is None else np.array(a)) for k, a in state.items() if k != "frame"})
        clocks.append(clk)
    return {"events": events, "steps": steps, "clocks": clocks}


# ----------------------------------------------------------------- observation
def param_values(p: dict) -> list:
    v = p["values"]
    if isinstance(v, str) and "numpy" in v:
        return evaluate_numpy_expr(v)
    return list(v)


def parameter_space(mode: str, params: list[dict], defaults: Optional[dict] = None, table: Optional[list] = None) -> list[dict]:
    """List of {key: value} dicts, one per run, in the documented order."""
    en = [p for p in params if p.get("enabled", True)]
    if mode == "product":
        lists = [param_values(p) for p in en]
        return [dict(zip([p["key"] for p in en], combo)) for combo in itertools.product(*lists)]
    if mode == "sequential":
        out = []
        for p in en:
            for val in param_values(p):
                d = dict(defaults or {})
                d[p["key"]] = val
                out.append(d)
        return out
    if mode == "custom":
        out = []
        for row in table or []:
            i = 0
            d = {}
            for p in en:
                n = 1 if p["values"] == "_" else len(p["values"])
                d[p["key"]] = row[i] if p["values"] == "_" else list(row[i : i + n])
                i += n
            out.append(d)
        return out
    raise ValueError(mode)


def close(a: Any, b: Any, rtol: float = 0.0) -> bool:
    if a is None or b is None:
        return a is None and b is None
    a, b = np.asarray(a), np.asarray(b)
    if a.shape != b.shape:
        return False
    if rtol == 0.0:
        return bool(np.array_equal(a, b))
    return bool(np.allclose(a, b, rtol=rtol, atol=0.0))


def isfinite_all(a) -> bool:
    return bool(np.all(np.isfinite(np.asarray(a, dtype=float))))


def ulp_slack(x: float) -> float:
    return 4 * math.ulp(abs(x)) if x else 1e-300
