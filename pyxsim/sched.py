"""Seeded baton-passing scheduler.

Every unit of concurrent work is a real ``threading.Thread`` but exactly one of
them holds the *baton* at any instant; everybody else is parked on its own
semaphore.  What is simulated is the choice of who runs next: it is drawn from
one ``random.Random`` (or forced from a recorded decision list on replay).

Seams taken here
* dask: ``dask.config.set(scheduler="threads", pool=<SimPool>)`` plus a replaced
  ``dask.local.queue_get`` (looked up by global name inside ``get_async``), so
  "wait until some task finished" becomes "let the simulator run somebody".
* ``ThreadPoolExecutor`` lookalike (``SimExecutor``) for code that maps a
  function over a pool (island creation in calibration).
* foreign threads (pygmo's C++ island threads calling back into Python) are
  *adopted* at their first Python-visible entry point, behind an arrival
  barrier, and from then on run only with the baton.

Nothing in this module reads a real clock for decisions or draws randomness
from anywhere but ``Sim.rng``.  Wall-clock timeouts exist only as a watchdog and
turn into ``HarnessError`` (never into a pass, never into a violation).
"""

from __future__ import annotations

import contextlib
import hashlib
import heapq
import re
import threading
from concurrent.futures import Future
from typing import Any, Callable, Optional

WATCHDOG_S = 120.0


class HarnessError(BaseException):
    """The simulator itself failed (hang, replay divergence, step cap).

    Not an ``Exception``: neither the code under test nor an oracle's ``except Exception`` may mistake a failure of the
    harness for an outcome of the run."""


class ScenarioTimeout(HarnessError):
    """The per-scenario wall-clock watchdog fired (raised from the SIGALRM handler in the main thread)."""


class SimDeadlock(Exception):
    """Bounded-liveness failure: work is pending but nobody can make progress."""


NEW, RUNNABLE, BLOCKED, SLEEPING, EXTERNAL, DONE = (
    "new",
    "runnable",
    "blocked",
    "sleeping",
    "external",
    "done",
)
ARRIVING = "arriving"  # adopted foreign thread waiting for the arrival barrier: not schedulable yet

_ACTIVE: Optional["Sim"] = None
_TOKEN = re.compile(r"-[0-9a-f]{6,}$")
_UUID = re.compile(r"-?[0-9a-f]{8}-[0-9a-f]{4}-[0-9a-f]{4}-[0-9a-f]{4}-[0-9a-f]{12}")
_HEX = re.compile(r"-?[0-9a-f]{16,}")
# dask tasks that run repository code get their own simulated thread; everything else
# (getitem / transpose / reshape / finalize bookkeeping) runs inline
THREADED_NAME = re.compile(r"^(vectorize__run_pipelines_tuple_to_array|evolve|_save_data_2d|user_\w+)$|vectorize_fitness|apply_parameters")


def canonical_name(name) -> str:
    name = str(name)
    name = _UUID.sub("", name)
    name = _HEX.sub("", name)
    name = _TOKEN.sub("", name)
    return name.strip("-")


def current_sim() -> Optional["Sim"]:
    return _ACTIVE


def canonical_task_label(args: tuple) -> str:
    """Label of a dask ``batch_execute_tasks`` submission, free of token strings."""
    try:
        batch = args[0]
        parts = []
        for item in batch:
            key = item[0]
            if isinstance(key, tuple):
                name, idx = key[0], key[1:]
            else:
                name, idx = key, ()
            parts.append(canonical_name(name) + ":" + ",".join(str(i) for i in idx))
        return "task[" + ";".join(parts) + "]"
    except Exception:  # pragma: no cover - defensive
        return "task[?]"


def is_threaded(label: str) -> bool:
    inner = label[5:-1] if label.startswith("task[") else label
    return any(THREADED_NAME.search(part.split(":")[0]) for part in inner.split(";"))


class SimFuture(Future):
    """A Future whose blocking accessors hand the baton on instead of blocking for real."""

    def _sim_wait(self):
        sim = _ACTIVE
        if sim is not None and not self.done() and sim.me() is not None:
            sim.block_until(self.done, "future")

    def result(self, timeout=None):
        self._sim_wait()
        return super().result(timeout)

    def exception(self, timeout=None):
        self._sim_wait()
        return super().exception(timeout)


def sim_as_completed(fs, timeout=None):
    """Simulator-aware ``concurrent.futures.as_completed``: yields futures in simulated completion order."""
    pending = list(fs)
    sim = _ACTIVE
    while pending:
        done = [f for f in pending if f.done()]
        if not done:
            if sim is None or sim.me() is None:
                import concurrent.futures as cf

                yield from cf.as_completed(pending, timeout)
                return
            sim.block_until(lambda: any(f.done() for f in pending), "as_completed")
            continue
        # completion order as recorded by the scheduler (stable for simultaneous completions)
        done.sort(key=lambda f: getattr(f, "_sim_done_seq", 0))
        for f in done:
            pending.remove(f)
            yield f


def sim_wait(fs, timeout=None, return_when="ALL_COMPLETED"):
    import concurrent.futures as cf

    fs = list(fs)
    sim = _ACTIVE
    if sim is not None and sim.me() is not None:
        if return_when == cf.FIRST_COMPLETED:
            sim.block_until(lambda: any(f.done() for f in fs), "wait")
        elif return_when == cf.FIRST_EXCEPTION:
            sim.block_until(lambda: all(f.done() for f in fs) or any(f.done() and f.exception() is not None for f in fs), "wait")
        else:
            sim.block_until(lambda: all(f.done() for f in fs), "wait")
    return cf.wait(fs, timeout=0 if sim is not None else timeout, return_when=return_when)


class SimThread:
    __slots__ = (
        "label",
        "key",
        "ordinal",
        "sem",
        "state",
        "pred",
        "wake",
        "prio",
        "thread",
        "poison",
        "ident",
        "atomic",
    )

    def __init__(self, label: str, key: str, ordinal: int, prio: float):
        self.label = label
        self.key = key
        self.ordinal = ordinal
        self.sem = threading.Semaphore(0)
        self.state = NEW
        self.pred: Optional[Callable[[], bool]] = None
        self.wake = 0.0
        self.prio = prio
        self.thread: Optional[threading.Thread] = None
        self.poison: Optional[BaseException] = None
        self.ident: Optional[int] = None
        self.atomic = 0

    def __repr__(self) -> str:
        return f"<{self.key} {self.state}>"


class Sim:
    """One simulated execution."""

    def __init__(
        self,
        rng,
        policy: str = "random",
        workers: int = 4,
        preempt_p: float = 0.0,
        pct_d: int = 0,
        forced: Optional[list] = None,
        max_steps: int = 200_000,
        procs: bool = False,
        expected_foreign: int = 0,
    ):
        self.rng = rng
        self.policy = policy
        self.workers = max(1, int(workers))
        self.preempt_p = preempt_p
        self.forced = list(forced) if forced is not None else None
        self.forced_i = 0
        self.max_steps = max_steps
        self.procs = procs
        self.expected_foreign = expected_foreign

        self.threads: list[SimThread] = []
        self.by_ident: dict[int, SimThread] = {}
        self.label_count: dict[str, int] = {}
        self.holder: Optional[SimThread] = None
        self.now = 0.0
        self.seq = 0
        self.steps = 0
        self.decisions: list[str] = []
        self.contested = 0  # decisions with >1 candidate
        self.preemptions = 0
        self.log: list[tuple] = []
        self.stats: dict[str, int] = {}
        self.pool = SimPool(self)
        self.broken: Optional[str] = None
        self._mutex = threading.Lock()  # only for foreign-thread arrival
        self._arrivals: list[SimThread] = []
        self._installed = False
        self._saved: dict[str, Any] = {}
        self.completion_order: list[str] = []
        self.max_concurrent = 0
        # PCT change points (step numbers at which the running thread is demoted)
        self.pct_points = (
            sorted(rng.randrange(1, 400) for _ in range(pct_d)) if pct_d else []
        )
        self.torn = False

    # ------------------------------------------------------------------ utils
    def count(self, name: str, n: int = 1) -> None:
        self.stats[name] = self.stats.get(name, 0) + n

    def event(self, kind: str, detail: Any = None) -> None:
        if self.torn:
            # threads released by the tear-down unwind in real time: nothing they do belongs to the history
            return
        me = self.me()
        self.seq += 1
        self.log.append((self.seq, kind, me.key if me else "-", detail))

    def digest(self) -> str:
        h = hashlib.sha256()
        for ev in self.log:
            h.update(repr(ev).encode())
        h.update(repr(self.decisions).encode())
        return h.hexdigest()[:16]

    def me(self) -> Optional[SimThread]:
        return self.by_ident.get(threading.get_ident())

    def _new_thread(self, label: str) -> SimThread:
        n = self.label_count.get(label, 0)
        self.label_count[label] = n + 1
        th = SimThread(label, f"{label}#{n}", len(self.threads), self.rng.random())
        self.threads.append(th)
        return th

    # ---------------------------------------------------------------- install
    def install(self) -> None:
        """Make the calling thread the first client and take the dask seam."""
        global _ACTIVE
        import dask
        import dask.local

        if _ACTIVE is not None:
            raise HarnessError("nested Sim")
        _ACTIVE = self
        self._saved["queue_get"] = dask.local.queue_get
        dask.local.queue_get = _sim_queue_get
        self._saved["cfg"] = dask.config.set(
            scheduler="threads", pool=self.pool, num_workers=self.workers
        )
        self._saved["cfg"].__enter__()
        from . import seams as _seams

        self._lock_seam = _seams.LockSeam()
        self._lock_seam.install()
        main = self._new_thread("main")
        main.state = RUNNABLE
        main.ident = threading.get_ident()
        self.by_ident[main.ident] = main
        self.holder = main
        self._installed = True

    def uninstall(self) -> None:
        global _ACTIVE
        import dask.local

        if not self._installed:
            return
        dask.local.queue_get = self._saved["queue_get"]
        with contextlib.suppress(Exception):
            self._lock_seam.uninstall()
        with contextlib.suppress(Exception):
            self._saved["cfg"].__exit__(None, None, None)
        _ACTIVE = None
        self._installed = False
        # release anything still parked so no thread leaks past the scenario
        self.torn = True
        leftovers = [t for t in self.threads if t.state not in (DONE,) and t.thread]
        for t in leftovers:
            t.poison = HarnessError("simulation torn down")
            t.sem.release()
        for t in leftovers:
            if t.thread is not threading.current_thread():
                t.thread.join(timeout=5)

    @contextlib.contextmanager
    def running(self):
        self.install()
        try:
            yield self
        finally:
            self.uninstall()

    # ------------------------------------------------------------- scheduling
    def _candidates(self) -> list[SimThread]:
        out = []
        for t in self.threads:
            if t.state == RUNNABLE:
                out.append(t)
            elif t.state == BLOCKED and t.pred is not None and t.pred():
                out.append(t)
        return out

    def _choose(self, me: Optional[SimThread], cands: list[SimThread], kind: str):
        cands = sorted(cands, key=lambda t: t.key)
        if len(cands) == 1:
            return cands[0]
        self.contested += 1
        mine = me if (me is not None and me in cands) else None
        if self.forced is not None:
            if self.forced_i < len(self.forced):
                want = self.forced[self.forced_i]
                self.forced_i += 1
                for t in cands:
                    if t.key == want:
                        chosen = t
                        break
                else:
                    raise HarnessError(
                        f"replay diverged at decision {self.forced_i - 1}: "
                        f"wanted {want}, have {[t.key for t in cands]}"
                    )
            else:
                chosen = mine or min(cands, key=lambda t: t.ordinal)
        elif self.policy == "fifo":
            chosen = mine or min(cands, key=lambda t: t.ordinal)
        elif self.policy == "lifo":
            chosen = mine or max(cands, key=lambda t: t.ordinal)
        elif self.policy == "random":
            chosen = mine or self.rng.choice(cands)
        elif self.policy == "preempt":
            if mine is not None and kind == "yield":
                if self.rng.random() < self.preempt_p:
                    chosen = self.rng.choice(cands)
                else:
                    chosen = mine
            else:
                chosen = self.rng.choice(cands)
        elif self.policy == "pct":
            while self.pct_points and self.steps >= self.pct_points[0]:
                self.pct_points.pop(0)
                if mine is not None:
                    mine.prio = -self.steps  # demote below everything seen so far
            chosen = max(cands, key=lambda t: (t.prio, t.key))
        else:
            raise HarnessError(f"unknown policy {self.policy}")
        self.decisions.append(chosen.key)
        if mine is not None and chosen is not mine and kind == "yield":
            self.preemptions += 1
        return chosen

    def _park(self, me: SimThread) -> None:
        if not me.sem.acquire(timeout=WATCHDOG_S):
            self.broken = f"watchdog: {me.key} parked > {WATCHDOG_S}s"
            raise HarnessError(self.broken)
        if me.poison is not None:
            exc, me.poison = me.poison, None
            raise exc

    def _switch(self, me: Optional[SimThread], kind: str) -> None:
        """Baton holder ``me`` (or nobody) hands the baton to the next thread."""
        if self.torn:
            self.holder = None
            return
        self.steps += 1
        if self.steps > self.max_steps:
            self.broken = "step cap"
            raise HarnessError("step cap exceeded")
        cands = self._candidates()
        while not cands:
            sleepers = [t for t in self.threads if t.state == SLEEPING]
            if sleepers:
                t0 = min(t.wake for t in sleepers)
                self.now = max(self.now, t0)
                for t in sleepers:
                    if t.wake <= self.now:
                        t.state = RUNNABLE
                cands = self._candidates()
                continue
            if any(t.state in (EXTERNAL, ARRIVING) for t in self.threads) or (
                self.expected_foreign and me is not None and me.state == EXTERNAL
            ):
                # somebody is inside foreign code and will come back: free baton
                self.holder = None
                return
            blocked = [t for t in self.threads if t.state == BLOCKED]
            if not blocked:
                self.holder = None
                return
            self.count("deadlock")
            victim = me if (me is not None and me in blocked) else min(
                blocked, key=lambda t: t.ordinal
            )
            victim.state = RUNNABLE
            if victim is me:
                raise SimDeadlock(
                    "no progress: "
                    + ", ".join(f"{t.key}:{t.state}" for t in self.threads if t.state != DONE)
                )
            victim.poison = SimDeadlock("no progress (woken as victim)")
            cands = [victim]
        nxt = self._choose(me, cands, kind)
        if nxt is me:
            me.state = RUNNABLE
            return
        nxt.state = RUNNABLE
        self.holder = nxt
        nxt.sem.release()
        if me is not None and me.state not in (DONE, EXTERNAL):
            self._park(me)

    # ------------------------------------------------------- public yield API
    def yield_point(self, kind: str = "yield", detail: Any = None) -> None:
        me = self.me()
        if me is None or self.broken:
            return
        if me.atomic:
            return
        self.count("yield:" + kind)
        if self.policy in ("preempt", "pct"):
            self._switch(me, "yield")

    def block_until(self, pred: Callable[[], bool], what: str = "") -> None:
        me = self.me()
        if me is None:
            raise HarnessError("block_until from unmanaged thread")
        while not pred():
            if self.torn:
                raise HarnessError("simulation torn down")
            me.state = BLOCKED
            me.pred = pred
            self._switch(me, "block")
        me.pred = None
        me.state = RUNNABLE

    def sleep(self, dt: float) -> None:
        me = self.me()
        if me is None or dt <= 0:
            return
        if me.atomic:
            # process-pool stub: a task is one atomic step (its private generator must not be shared
            # with a task that would run while this one sleeps); completion order is the start order
            return
        self.count("sleep")
        me.state = SLEEPING
        me.wake = self.now + float(dt)
        self._switch(me, "sleep")

    @contextlib.contextmanager
    def atomic(self):
        """No pre-emption inside (used by the process-pool stub)."""
        me = self.me()
        if me is not None:
            me.atomic += 1
        try:
            yield
        finally:
            if me is not None:
                me.atomic -= 1

    # ------------------------------------------------------------ thread body
    def spawn(self, label: str, fn: Callable, *args, **kwargs) -> Future:
        fut: Future = SimFuture()
        th = self._new_thread(label)

        def body():
            th.ident = threading.get_ident()
            self.by_ident[th.ident] = th
            try:
                self._park(th)  # wait for first scheduling
            except BaseException as exc:  # torn down before ever running
                th.state = DONE
                with contextlib.suppress(Exception):
                    fut.set_exception(exc)
                return
            running = sum(1 for t in self.threads if t.state in (RUNNABLE, SLEEPING) and t.label.startswith("task"))
            self.max_concurrent = max(self.max_concurrent, running)
            self.event("start", th.key)
            try:
                res = fn(*args, **kwargs)
            except HarnessError as exc:
                th.state = DONE
                fut.set_exception(exc)
                return
            except BaseException as exc:
                self.event("raise", (th.key, type(exc).__name__))
                self.completion_order.append(th.key)
                th.state = DONE
                fut._sim_done_seq = self.seq
                fut.set_exception(exc)
            else:
                self.event("finish", th.key)
                if not self.torn:
                    self.completion_order.append(th.key)
                th.state = DONE
                fut._sim_done_seq = self.seq
                fut.set_result(res)
            try:
                self._switch(th, "finish")
            except BaseException:
                pass
            finally:
                self.by_ident.pop(th.ident, None)

        t = threading.Thread(target=body, name=th.key, daemon=True)
        th.thread = t
        th.state = RUNNABLE
        t.start()
        return fut

    def join(self, futs: list) -> None:
        self.block_until(lambda: all(f.done() for f in futs), "join")

    # --------------------------------------------------------- foreign threads
    def external_call(self, fn: Callable, *args, **kwargs):
        """Run ``fn`` (foreign code that blocks on threads we cannot see) without the baton."""
        me = self.me()
        if me is None:
            return fn(*args, **kwargs)
        with self._mutex:
            me.state = EXTERNAL
            self._switch(me, "external")  # hands baton on (or frees it); does not park
        try:
            return fn(*args, **kwargs)
        finally:
            self._reenter(me)

    def _reenter(self, me: SimThread) -> None:
        with self._mutex:
            if self.holder is None:
                me.state = RUNNABLE
                self.holder = me
                return
            me.state = RUNNABLE
        self._park(me)

    def adopt(self, label: str) -> SimThread:
        """Called by a foreign thread at its first Python-visible entry."""
        with self._mutex:
            th = self._new_thread(label)
            th.ident = threading.get_ident()
            th.thread = threading.current_thread()
            self.by_ident[th.ident] = th
            # not schedulable before every expected foreign thread has arrived: which of them arrives first (and whether
            # the caller has already released the baton by then) is decided by the operating system, not by us
            th.state = ARRIVING if self.expected_foreign > 1 else RUNNABLE
            self._arrivals.append(th)
            self.count("adopted")
            all_in = len(self._arrivals) >= max(1, self.expected_foreign)
            if all_in:
                # real arrival order is not ours to choose: make everything that depends on it canonical
                arr = sorted(self._arrivals, key=lambda t: t.key)
                ords = sorted(t.ordinal for t in self._arrivals)
                prios = sorted(t.prio for t in self._arrivals)
                for t, o, p in zip(arr, ords, prios):
                    t.ordinal, t.prio = o, p
                for t in self._arrivals:
                    if t.state == ARRIVING:
                        t.state = RUNNABLE
            if all_in and self.holder is None:
                self._arrivals = []
                cands = self._candidates()
                nxt = self._choose(None, cands, "arrive")
                self.holder = nxt
                if nxt is th:
                    return th
                nxt.sem.release()
        self._park(th)
        return th

    def retire(self, th: SimThread) -> None:
        """Foreign thread leaves Python again."""
        with self._mutex:
            th.state = DONE
            self.by_ident.pop(th.ident, None)
            self.event("retire", th.key)
            try:
                self._switch(th, "finish")
            except (SimDeadlock, HarnessError):
                self.holder = None


def _sim_queue_get(q):
    sim = _ACTIVE
    if sim is None:
        return q.get()
    me = sim.me()
    if me is None:
        return q.get()
    sim.block_until(lambda: not q.empty(), "queue")
    return q.get()


class SimPool:
    """The ``pool=`` object handed to ``dask.threaded.get``."""

    def __init__(self, sim: Sim):
        self.sim = sim

    @property
    def _max_workers(self) -> int:
        return self.sim.workers

    def submit(self, fn, *args, **kwargs) -> Future:
        sim = self.sim
        label = canonical_task_label(args)
        if not is_threaded(label):
            # bookkeeping tasks (getitem / transpose / finalize ...): pure functions of private
            # data whose key names carry non-reproducible tokens; run them inline, unlogged
            sim.count("inline_task")
            fut: Future = Future()
            try:
                fut.set_result(fn(*args, **kwargs))
            except BaseException as exc:  # noqa: BLE001
                fut.set_exception(exc)
            return fut
        sim.count("task")
        if sim.procs:
            fn = _process_stub(sim, fn)
        return sim.spawn(label, fn, *args, **kwargs)

    def shutdown(self, wait=True):  # pragma: no cover
        pass


def _process_stub(sim: Sim, fn):
    """Process-pool semantics: pickled arguments/results, own process-wide RNG, atomic."""

    def run(*args, **kwargs):
        import cloudpickle
        import numpy as np

        sim.count("proc_task")
        a, k = cloudpickle.loads(cloudpickle.dumps((args, kwargs)))
        saved = np.random.get_state()
        try:
            # a fresh worker process starts with an unrelated generator state
            np.random.seed(sim.rng.randrange(2**32))
            with sim.atomic():
                res = fn(*a, **k)
        finally:
            np.random.set_state(saved)
        return cloudpickle.loads(cloudpickle.dumps(res))

    return run


class SimExecutor:
    """Stand-in for ``concurrent.futures.ThreadPoolExecutor`` (``map`` + context manager)."""

    def __init__(self, max_workers=None, **_kw):
        self.max_workers = max_workers

    def __enter__(self):
        return self

    def __exit__(self, *exc):
        return False

    def map(self, fn, *iterables):
        sim = _ACTIVE
        items = list(zip(*iterables))
        if sim is None or sim.me() is None:
            return [fn(*it) for it in items]
        sim.count("executor_map")
        futs = [sim.spawn(f"pool:{i}", fn, *it) for i, it in enumerate(items)]
        sim.join(futs)
        return [f.result() for f in futs]

    def submit(self, fn, *args, **kwargs):
        sim = _ACTIVE
        if sim is None or sim.me() is None:
            f: Future = Future()
            try:
                f.set_result(fn(*args, **kwargs))
            except BaseException as exc:
                f.set_exception(exc)
            return f
        return sim.spawn("pool:submit", fn, *args, **kwargs)

    def shutdown(self, wait=True):
        pass
