"""Seams over process-wide sources of nondeterminism: numpy legacy RNG, wall clock, filesystem.

Each wrapper (a) is a scheduler yield point, (b) appends to an operation log
and (c) can raise an injected fault.  Installed per scenario, always removed.
"""

from __future__ import annotations

import contextlib
import errno
from typing import Any, Callable, Optional

from . import sched

RNG_FUNCS = (
    "seed",
    "get_state",
    "set_state",
    "random",
    "random_sample",
    "rand",
    "randn",
    "randint",
    "choice",
    "uniform",
    "normal",
    "standard_normal",
    "lognormal",
    "poisson",
    "binomial",
    "exponential",
    "gamma",
)


def _in_import() -> bool:
    """True while the calling thread is executing an import (it then holds module import locks:
    handing the baton on would deadlock against another thread importing the same module)."""
    import sys

    f = sys._getframe(1)
    depth = 0
    while f is not None and depth < 80:
        if f.f_code.co_filename.startswith("<frozen importlib"):
            return True
        f = f.f_back
        depth += 1
    return False


def _who() -> str:
    sim = sched.current_sim()
    if sim is None:
        return "-"
    me = sim.me()
    return me.key if me else "-"


class RngSeam:
    """numpy.random module-level functions as yield points with a draw log."""

    def __init__(self):
        self.log: list[tuple[str, str]] = []
        self.in_section: dict[str, int] = {}
        self.overlap = 0  # a thread touched the generator while another was inside a seeded section
        self._orig: dict[str, Callable] = {}

    def install(self) -> None:
        import numpy as np

        for name in RNG_FUNCS:
            orig = getattr(np.random, name, None)
            if orig is None:
                continue
            self._orig[name] = orig
            setattr(np.random, name, self._wrap(name, orig))

    def uninstall(self) -> None:
        import numpy as np

        for name, orig in self._orig.items():
            setattr(np.random, name, orig)
        self._orig.clear()

    def _wrap(self, name: str, orig: Callable) -> Callable:
        def wrapper(*args, **kwargs):
            sim = sched.current_sim()
            if sim is not None:
                sim.yield_point("rng")
            who = _who()
            others = [k for k, n in self.in_section.items() if n > 0 and k != who]
            if others:
                self.overlap += 1
            res = orig(*args, **kwargs)
            if name == "seed":
                self.in_section[who] = self.in_section.get(who, 0) + 1
            elif name == "set_state":
                self.in_section[who] = max(0, self.in_section.get(who, 0) - 1)
            self.log.append((who, name))
            return res

        wrapper.__name__ = name
        wrapper.__wrapped__ = orig
        return wrapper

    @contextlib.contextmanager
    def active(self):
        self.install()
        try:
            yield self
        finally:
            self.uninstall()


class SimClock:
    """Virtual wall clock; read by the patched ``datetime`` and ``time`` seams."""

    def __init__(self, start: float = 1_700_000_000.0):
        self.t = start
        self.reads = 0
        self.auto_advance = 0.0  # advance per read (0 = frozen)

    def now(self) -> float:
        self.reads += 1
        t = self.t
        self.t += self.auto_advance
        return t


def make_sim_datetime(clock: SimClock):
    import datetime as _dt

    class SimDateTime(_dt.datetime):
        @classmethod
        def now(cls, tz=None):
            sim = sched.current_sim()
            if sim is not None:
                sim.yield_point("clock")
            return _dt.datetime.fromtimestamp(clock.now(), tz)

    return SimDateTime


class FsSeam:
    """Yield points / op log / injectable OSErrors on the write paths pyxel uses."""

    def __init__(self):
        self.log: list[tuple] = []
        self.faults: list[dict] = []  # {"op": "mkdir", "nth": 0, "errno": "EACCES"}
        self.fired: dict[str, int] = {}
        self.counts: dict[str, int] = {}
        self._undo: list[Callable[[], None]] = []

    def _maybe_fault(self, op: str, path: Any) -> None:
        n = self.counts.get(op, 0)
        self.counts[op] = n + 1
        for f in self.faults:
            if f["op"] == op and f["nth"] == n:
                code = getattr(errno, f["errno"])
                self.fired[f"{op}:{f['errno']}"] = self.fired.get(f"{op}:{f['errno']}", 0) + 1
                raise OSError(code, f"injected {f['errno']}", str(path))

    def _patch(self, obj: Any, name: str, op: str, path_of: Callable) -> None:
        orig = getattr(obj, name)
        seam = self

        def wrapper(*args, **kwargs):
            sim = sched.current_sim()
            if sim is not None and _in_import():
                return orig(*args, **kwargs)
            if sim is not None:
                sim.yield_point("fs")
            p = path_of(args, kwargs)
            seam._maybe_fault(op, p)
            seam.log.append((_who(), op, str(p)))
            return orig(*args, **kwargs)

        wrapper.__wrapped__ = orig
        setattr(obj, name, wrapper)
        self._undo.append(lambda: setattr(obj, name, orig))

    def install(self) -> None:
        import pathlib

        import numpy as np

        self._patch(pathlib.Path, "mkdir", "mkdir", lambda a, k: a[0])
        self._patch(pathlib.Path, "exists", "exists", lambda a, k: a[0])
        self._patch(pathlib.Path, "glob", "glob", lambda a, k: a[0])
        self._patch(np, "save", "np.save", lambda a, k: a[0] if a else k.get("file"))
        try:
            from astropy.io import fits

            self._patch(fits, "writeto", "fits.writeto", lambda a, k: a[0] if a else k.get("filename"))
        except Exception:  # pragma: no cover
            pass

    def uninstall(self) -> None:
        while self._undo:
            self._undo.pop()()

    @contextlib.contextmanager
    def active(self):
        self.install()
        try:
            yield self
        finally:
            self.uninstall()


class LineSeam:
    """Line-level pre-emption inside named repository functions (PEP 669, sys.monitoring).

    Every executed line of the listed functions becomes a scheduler yield point while a
    pre-emptive policy is active.  Functions are located by qualified name, never by line number.
    """

    TOOL = 4  # sys.monitoring tool id (free slot; DEBUGGER=0, COVERAGE=1, PROFILER=2, OPTIMIZER=5)
    DEFAULT = (
        ("pyxel.observation.observation_dask", "_run_pipelines_array_to_datatree"),
        ("pyxel.observation.observation_dask", "_run_pipelines_tuple_to_array"),
        ("pyxel.exposure.exposure", "run_pipeline"),
        ("pyxel.pipelines.processor", "Processor.replace"),
        ("pyxel.pipelines.processor", "Processor.set"),
        ("pyxel.observation.misc", "create_new_processor"),
        ("pyxel.util.randomize", "set_random_seed"),
        ("pyxel.pipelines.model_group", "ModelGroup.run"),
        ("pyxel.pipelines.model_function", "ModelFunction.__call__"),
    )

    def __init__(self, targets=None):
        self.targets = tuple(targets) if targets is not None else self.DEFAULT
        self.codes: list = []
        self.hits = 0
        self._on = False

    def _resolve(self):
        import importlib

        out = []
        for modname, qual in self.targets:
            try:
                obj = importlib.import_module(modname)
                for part in qual.split("."):
                    obj = getattr(obj, part)
                fn = getattr(obj, "__wrapped__", obj)
                fn = getattr(fn, "__func__", fn)
                code = getattr(fn, "__code__", None)
                if code is not None:
                    out.append(code)
            except Exception:  # noqa: BLE001 - a renamed function simply is not monitored (reported in evidence)
                continue
        return out

    def install(self) -> None:
        import sys

        mon = sys.monitoring
        self.codes = self._resolve()
        try:
            mon.use_tool_id(self.TOOL, "pyxsim-line-seam")
        except ValueError:
            mon.free_tool_id(self.TOOL)
            mon.use_tool_id(self.TOOL, "pyxsim-line-seam")

        def on_line(code, lineno):
            sim = sched.current_sim()
            if sim is not None:
                self.hits += 1
                sim.yield_point("line")

        mon.register_callback(self.TOOL, mon.events.LINE, on_line)
        for code in self.codes:
            mon.set_local_events(self.TOOL, code, mon.events.LINE)
        self._on = True

    def uninstall(self) -> None:
        import sys

        if not self._on:
            return
        mon = sys.monitoring
        for code in self.codes:
            try:
                mon.set_local_events(self.TOOL, code, 0)
            except Exception:  # noqa: BLE001
                pass
        mon.register_callback(self.TOOL, mon.events.LINE, None)
        try:
            mon.free_tool_id(self.TOOL)
        except Exception:  # noqa: BLE001
            pass
        self._on = False

    @contextlib.contextmanager
    def active(self):
        self.install()
        try:
            yield self
        finally:
            self.uninstall()


class SimRLock:
    """Re-entrant lock whose waiters hand the baton on instead of blocking for real."""

    def __init__(self):
        self.owner = None
        self.depth = 0
        self.waits = 0
        self._real = __import__("threading").RLock()

    def acquire(self, blocking=True, timeout=-1):
        sim = sched.current_sim()
        me = sim.me() if sim is not None else None
        if me is None:
            return self._real.acquire(blocking, timeout)
        if self.owner is not None and self.owner is not me:
            self.waits += 1
            sim.count("seed_lock_wait")
            sim.block_until(lambda: self.owner is None, "seed-lock")
        self.owner = me
        self.depth += 1
        return True

    def release(self):
        sim = sched.current_sim()
        me = sim.me() if sim is not None else None
        if me is None:
            return self._real.release()
        self.depth -= 1
        if self.depth <= 0:
            self.owner, self.depth = None, 0

    __enter__ = acquire

    def __exit__(self, *exc):
        self.release()
        return False


class LockSeam:
    """Module-level locks of the repository replaced by simulator-aware ones (looked up by name)."""

    TARGETS = (("pyxel.util.randomize", "_SEED_LOCK"),)

    def __init__(self):
        self._saved = []
        self.locks = []

    def install(self) -> None:
        import importlib

        for modname, attr in self.TARGETS:
            try:
                mod = importlib.import_module(modname)
            except Exception:  # noqa: BLE001
                continue
            if hasattr(mod, attr):
                lk = SimRLock()
                self._saved.append((mod, attr, getattr(mod, attr)))
                self.locks.append(lk)
                setattr(mod, attr, lk)

    def uninstall(self) -> None:
        for mod, attr, orig in self._saved:
            setattr(mod, attr, orig)
        self._saved = []

    @contextlib.contextmanager
    def active(self):
        self.install()
        try:
            yield self
        finally:
            self.uninstall()
