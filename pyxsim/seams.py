"""Seams over process-wide sources of nondeterminism: numpy legacy RNG, wall clock, filesystem.

Each wrapper (a) is a scheduler yield point, (b) appends to an operation log
and (c) can raise an injected fault.  Installed per scenario, always removed.
"""

from __future__ import annotations

import contextlib
import errno
from typing import Any, Callable, Optional

from . import sched

RNG_FUNCS = (
    "seed",
    "get_state",
    "set_state",
    "random",
    "random_sample",
    "rand",
    "randn",
    "randint",
    "choice",
    "uniform",
    "normal",
    "standard_normal",
    "lognormal",
    "poisson",
    "binomial",
    "exponential",
    "gamma",
)


def _who() -> str:
    sim = sched.current_sim()
    if sim is None:
        return "-"
    me = sim.me()
    return me.key if me else "-"


class RngSeam:
    """numpy.random module-level functions as yield points with a draw log."""

    def __init__(self):
        self.log: list[tuple[str, str]] = []
        self.in_section: dict[str, int] = {}
        self.overlap = 0  # a thread touched the generator while another was inside a seeded section
        self._orig: dict[str, Callable] = {}

    def install(self) -> None:
        import numpy as np

        for name in RNG_FUNCS:
            orig = getattr(np.random, name, None)
            if orig is None:
                continue
            self._orig[name] = orig
            setattr(np.random, name, self._wrap(name, orig))

    def uninstall(self) -> None:
        import numpy as np

        for name, orig in self._orig.items():
            setattr(np.random, name, orig)
        self._orig.clear()

    def _wrap(self, name: str, orig: Callable) -> Callable:
        def wrapper(*args, **kwargs):
            sim = sched.current_sim()
            if sim is not None:
                sim.yield_point("rng")
            who = _who()
            others = [k for k, n in self.in_section.items() if n > 0 and k != who]
            if others:
                self.overlap += 1
            res = orig(*args, **kwargs)
            if name == "seed":
                self.in_section[who] = self.in_section.get(who, 0) + 1
            elif name == "set_state":
                self.in_section[who] = max(0, self.in_section.get(who, 0) - 1)
            self.log.append((who, name))
            return res

        wrapper.__name__ = name
        wrapper.__wrapped__ = orig
        return wrapper

    @contextlib.contextmanager
    def active(self):
        self.install()
        try:
            yield self
        finally:
            self.uninstall()


class SimClock:
    """Virtual wall clock; read by the patched ``datetime`` and ``time`` seams."""

    def __init__(self, start: float = 1_700_000_000.0):
        self.t = start
        self.reads = 0
        self.auto_advance = 0.0  # advance per read (0 = frozen)

    def now(self) -> float:
        self.reads += 1
        t = self.t
        self.t += self.auto_advance
        return t


def make_sim_datetime(clock: SimClock):
    import datetime as _dt

    class SimDateTime(_dt.datetime):
        @classmethod
        def now(cls, tz=None):
            sim = sched.current_sim()
            if sim is not None:
                sim.yield_point("clock")
            return _dt.datetime.fromtimestamp(clock.now(), tz)

    return SimDateTime


class FsSeam:
    """Yield points / op log / injectable OSErrors on the write paths pyxel uses."""

    def __init__(self):
        self.log: list[tuple] = []
        self.faults: list[dict] = []  # {"op": "mkdir", "nth": 0, "errno": "EACCES"}
        self.fired: dict[str, int] = {}
        self.counts: dict[str, int] = {}
        self._undo: list[Callable[[], None]] = []

    def _maybe_fault(self, op: str, path: Any) -> None:
        n = self.counts.get(op, 0)
        self.counts[op] = n + 1
        for f in self.faults:
            if f["op"] == op and f["nth"] == n:
                code = getattr(errno, f["errno"])
                self.fired[f"{op}:{f['errno']}"] = self.fired.get(f"{op}:{f['errno']}", 0) + 1
                raise OSError(code, f"injected {f['errno']}", str(path))

    def _patch(self, obj: Any, name: str, op: str, path_of: Callable) -> None:
        orig = getattr(obj, name)
        seam = self

        def wrapper(*args, **kwargs):
            sim = sched.current_sim()
            if sim is not None:
                sim.yield_point("fs")
            p = path_of(args, kwargs)
            seam._maybe_fault(op, p)
            seam.log.append((_who(), op, str(p)))
            return orig(*args, **kwargs)

        wrapper.__wrapped__ = orig
        setattr(obj, name, wrapper)
        self._undo.append(lambda: setattr(obj, name, orig))

    def install(self) -> None:
        import pathlib

        import numpy as np

        self._patch(pathlib.Path, "mkdir", "mkdir", lambda a, k: a[0])
        self._patch(pathlib.Path, "exists", "exists", lambda a, k: a[0])
        self._patch(pathlib.Path, "glob", "glob", lambda a, k: a[0])
        self._patch(np, "save", "np.save", lambda a, k: a[0] if a else k.get("file"))
        try:
            from astropy.io import fits

            self._patch(fits, "writeto", "fits.writeto", lambda a, k: a[0] if a else k.get("filename"))
        except Exception:  # pragma: no cover
            pass

    def uninstall(self) -> None:
        while self._undo:
            self._undo.pop()()

    @contextlib.contextmanager
    def active(self):
        self.install()
        try:
            yield self
        finally:
            self.uninstall()
