"""Layout-aware, positional selection of one run from an observation result.

Four layouts exist (observed on the unchanged tree, DESIGN.md C05):
  product / sequential path : one dimension per scalar parameter, ``<name>_id`` index
                              dimension (+ ``<name>`` coordinate) per vector parameter
  product / parallel path   : one dimension per parameter, coordinate = value (tuple for vectors)
  sequential, custom        : one ``id`` dimension, parameter values as non-index coordinates

The oracle finds the position whose coordinate values equal the expected ones and
reads ``isel`` there; it never relies on xarray's ``sel`` for object coordinates.
"""

from __future__ import annotations

from collections import Counter
from typing import Any, Optional

import numpy as np


class LabelError(Exception):
    def __init__(self, kind: str, msg: str):
        super().__init__(msg)
        self.kind = kind


def dim_names(keys: list[str]) -> dict[str, str]:
    short = {k: ("readout_time" if k == "observation.readout.times" else k.split(".")[-1]) for k in keys}
    cnt = Counter(short.values())
    out = {}
    for k in keys:
        if cnt[short[k]] > 1:
            parts = k.split(".")
            out[k] = f"{parts[2]}.{parts[4]}" if len(parts) == 5 else short[k]
        else:
            out[k] = short[k]
    return out


def _eq(a: Any, b: Any) -> bool:
    try:
        if isinstance(a, (tuple, list, np.ndarray)) or isinstance(b, (tuple, list, np.ndarray)):
            aa, bb = np.asarray(a, dtype=float), np.asarray(b, dtype=float)
            return aa.shape == bb.shape and bool(np.array_equal(aa, bb))
        if isinstance(a, str) or isinstance(b, str):
            return str(a) == str(b)
        return float(a) == float(b)
    except Exception:
        return a == b


def positions(ds, names: dict[str, str], combo: dict, index: Optional[tuple], run_index: int, start_time: float = 0.0) -> dict[str, int]:
    """Map dimension -> position for the run with parameter values ``combo``."""
    sel: dict[str, int] = {}
    if "id" in ds.dims and not any(names[k] in ds.dims for k in combo):
        n = ds.sizes["id"]
        cands = list(range(n))
        used = 0
        for k, v in combo.items():
            d = names[k]
            if d in ds.coords and "id" in ds[d].dims:
                vals = ds[d].values
                cands = [j for j in cands if _eq(vals[j], v)]
                used += 1
        if len(cands) == 1:
            sel["id"] = cands[0]
        elif len(cands) == 0:
            raise LabelError("missing", f"no entry labelled {combo}")
        else:
            ids = list(ds["id"].values)
            if run_index in ids and ids.index(run_index) in cands:
                sel["id"] = ids.index(run_index)
            else:
                raise LabelError("ambiguous", f"{len(cands)} entries labelled {combo}, run index {run_index} not among them")
        return sel
    for pos, (k, v) in enumerate(combo.items()):
        d = names[k]
        renamed = False
        if d == "readout_time" and d not in ds.dims and "time" in ds.dims:
            d = "time"  # the parallel path renames the swept readout-time dimension
            renamed = True
        if d in ds.dims:
            vals = list(ds[d].values)
            hits = [j for j, c in enumerate(vals) if _eq(c, v)]
            if len(hits) != 1:
                raise LabelError("missing" if not hits else "duplicate", f"{len(hits)} labels equal to {v!r} on dimension {d!r}: {vals!r}")
            sel[d] = [hits[0]] if renamed else hits[0]  # a run keeps its (one-entry) time axis in both layouts
            if d == "readout_time" and "time" in ds.dims and ds.sizes["time"] > 1:
                # sequentially executed sweep of the readout time: the merged result keeps one 'time' axis with the absolute
                # times of all runs; the run owns the entry labelled start + readout time (the others are padding)
                tv = list(ds["time"].values)
                th = [j for j, c in enumerate(tv) if _eq(c, float(start_time) + float(v))]
                if len(th) != 1:
                    raise LabelError("missing" if not th else "duplicate", f"{len(th)} 'time' labels equal to {float(start_time) + float(v)!r}: {tv!r}")
                sel["time"] = [th[0]]
        elif f"{d}_id" in ds.dims:
            ids = list(ds[f"{d}_id"].values)
            i = index[pos] if index is not None else None
            if i is None or i not in ids:
                raise LabelError("missing", f"index {i} not on dimension {d}_id: {ids}")
            j = ids.index(i)
            if d in ds.coords:
                cv = ds[d].isel({f"{d}_id": j}).values
                if not _eq(cv, v):
                    raise LabelError("mislabel", f"coordinate {d}[{i}] = {cv!r}, expected {v!r}")
            sel[f"{d}_id"] = j
        else:
            raise LabelError("nodim", f"no dimension for parameter {k} ({d}); dims={list(ds.dims)}")
    return sel


def run_slice(ds, sel: dict[str, int], buckets=("photon", "charge", "pixel", "signal", "image")) -> dict[str, np.ndarray]:
    out = {}
    sub = ds.isel(sel)
    for b in buckets:
        if b in sub.data_vars:
            out[b] = np.asarray(sub[b].values)
    return out


def expected_sizes(ds, names: dict[str, str], params: list[dict], nvalues: dict[str, int], nruns: int) -> Optional[str]:
    """Completeness: no extra entries beyond the requested space. Returns a message or None."""
    if "id" in ds.dims and not any(names[p["key"]] in ds.dims for p in params):
        if ds.sizes["id"] != nruns:
            return f"result has {ds.sizes['id']} entries on 'id', expected {nruns}"
        return None
    for p in params:
        d = names[p["key"]]
        for dd in (d, f"{d}_id"):
            if dd in ds.dims and ds.sizes[dd] != nvalues[p["key"]]:
                return f"dimension {dd} has {ds.sizes[dd]} entries, expected {nvalues[p['key']]}"
    return None
