"""Scenario generator pieces and builders (Python objects and YAML twins)."""

from __future__ import annotations

import copy
import os
import shutil
import tempfile
from typing import Any, Optional

from . import ref

DET_TYPES = ("CCD", "CMOS", "MKID", "APD")
DET_KEY = {"CCD": "ccd_detector", "CMOS": "cmos_detector", "MKID": "mkid_detector", "APD": "apd_detector"}
PROBE = "pyxsim.probes.P"


# ------------------------------------------------------------------ generation
def gen_detector(rng, types=DET_TYPES) -> dict:
    return {
        "type": rng.choice(list(types)),
        "row": rng.randint(2, 5),
        "col": rng.randint(2, 5),
        "qe": round(rng.uniform(0.1, 1.0), 3),
        "temperature": float(rng.randint(80, 300)),
        "pixel_vert_size": rng.choice([1.0, 5.0, 10.0, 18.0]),
        "pixel_horz_size": rng.choice([1.0, 5.0, 10.0, 18.0]),
        "total_thickness": rng.choice([10.0, 40.0]),
        "adc_bit_resolution": rng.choice([8, 12, 16, 32]),
        "full_well_capacity": float(rng.choice([1000, 100000])),
    }


def gen_times(rng, nmax: int = 5) -> dict:
    n = rng.randint(1, nmax)
    start = rng.choice([0.0, 0.0, 0.5, -1.0, 2.0])
    t = start
    times = []
    for _ in range(n):
        t += rng.choice([0.25, 0.5, 1.0, 1.5, 3.0])
        times.append(round(t, 6))
    if times[0] == 0:
        times = [round(x + 0.5, 6) for x in times]
    return {"times": times, "start_time": start, "non_destructive": rng.random() < 0.5}


_FREE_VALUES = [1, 0, -3, 2.5, "abc", "", None, True, [1, 2, 3], [], {"a": 1, "b": [1, 2]}, [[1, 2], [3, 4]], "1.5", {"nested": {"x": None}}]


def gen_free_args(rng, n: int) -> dict:
    out = {}
    for i in range(n):
        out[f"free{i}"] = copy.deepcopy(rng.choice(_FREE_VALUES))
    return out


def gen_pipeline(
    rng,
    max_per_group: int = 2,
    group_p: float = 0.5,
    writes: bool = True,
    free_args: int = 2,
    p_disabled: float = 0.25,
    photon3d: bool = False,
    image_dtypes=("uint16",),
    float_dtypes=("float64",),
) -> dict:
    pipe: dict[str, list] = {}
    k = 0
    for g in ref.CANONICAL_GROUPS:
        if rng.random() > group_p:
            continue
        models = []
        for _ in range(rng.randint(1, max_per_group)):
            tag = f"m{k}"
            k += 1
            args: dict[str, Any] = {"tag": tag, "level": rng.choice([0, 1, 2.5, 7])}
            if writes:
                choices = ["photon", "charge", "pixel", "signal", "image"]
                w = [b for b in choices if rng.random() < 0.35]
                if photon3d and "photon" in w and rng.random() < 0.5:
                    w[w.index("photon")] = "photon3d"
                args["write"] = w
                if "image" in w:
                    args["image_dtype"] = rng.choice(list(image_dtypes))
                args["float_dtype"] = rng.choice(list(float_dtypes))
            args.update(gen_free_args(rng, rng.randint(0, free_args)))
            models.append({"name": tag, "func": PROBE, "enabled": rng.random() >= p_disabled, "arguments": args})
        pipe[g] = models
    if not pipe:
        pipe["charge_collection"] = [
            {"name": "m0", "func": PROBE, "enabled": True, "arguments": {"tag": "m0", "level": 1, "write": ["pixel"]}}
        ]
    return pipe


def all_models(scn: dict) -> list[tuple[str, dict]]:
    return [(g, m) for g in ref.CANONICAL_GROUPS for m in (scn["pipeline"].get(g) or [])]


# -------------------------------------------------------------------- builders
def _char_kwargs(det: dict) -> dict:
    kw: dict[str, Any] = {
        "quantum_efficiency": det.get("qe"),
        "full_well_capacity": det.get("full_well_capacity"),
        "adc_bit_resolution": det.get("adc_bit_resolution"),
        "adc_voltage_range": det.get("adc_voltage_range", [0.0, 10.0]),
    }
    if det["type"] == "APD" and "common_voltage" in det:
        # the other way to state the bias: two of (avalanche gain, pixel reset voltage, common voltage)
        kw["roic_gain"] = det.get("roic_gain", 0.8)
        kw["common_voltage"] = det["common_voltage"]
        if det.get("avalanche_gain") is not None:
            kw["avalanche_gain"] = det["avalanche_gain"]
        if det.get("pixel_reset_voltage") is not None:
            kw["pixel_reset_voltage"] = det["pixel_reset_voltage"]
    elif det["type"] == "APD":
        kw["roic_gain"] = det.get("roic_gain", 0.8)
        kw["avalanche_gain"] = det.get("avalanche_gain", 2.0)
        kw["pixel_reset_voltage"] = det.get("pixel_reset_voltage", 5.0)
    else:
        kw["charge_to_volt_conversion"] = det.get("charge_to_volt_conversion", 1e-6)
        kw["pre_amplification"] = det.get("pre_amplification", 10.0)
    return kw


def _geo_kwargs(det: dict) -> dict:
    return {
        "row": det["row"],
        "col": det["col"],
        "total_thickness": det.get("total_thickness"),
        "pixel_vert_size": det.get("pixel_vert_size"),
        "pixel_horz_size": det.get("pixel_horz_size"),
    }


def _wavelength(w):
    """a single wavelength (number) or a multi-wavelength description {cut_on, cut_off, resolution}"""
    if isinstance(w, dict):
        from pyxel.detectors import WavelengthHandling

        return WavelengthHandling(**w)
    return w


def build_detector(det: dict):
    from pyxel import detectors as D

    geo_cls = {"CCD": D.CCDGeometry, "CMOS": D.CMOSGeometry, "MKID": D.MKIDGeometry, "APD": D.APDGeometry}[det["type"]]
    det_cls = {"CCD": D.CCD, "CMOS": D.CMOS, "MKID": D.MKID, "APD": D.APD}[det["type"]]
    char_cls = D.APDCharacteristics if det["type"] == "APD" else D.Characteristics
    ck = _char_kwargs(det)
    if ck.get("adc_voltage_range") is not None:
        ck["adc_voltage_range"] = tuple(ck["adc_voltage_range"])
    return det_cls(
        geometry=geo_cls(**_geo_kwargs(det)),
        environment=D.Environment(temperature=det.get("temperature"), **({"wavelength": _wavelength(det["wavelength"])} if "wavelength" in det else {})),
        characteristics=char_cls(**ck),
    )


def build_pipeline(pipe: dict):
    from pyxel.pipelines import DetectionPipeline, ModelFunction

    kw = {}
    for g, models in pipe.items():
        kw[g] = [
            ModelFunction(func=m["func"], name=m["name"], arguments=copy.deepcopy(m.get("arguments") or {}), enabled=m.get("enabled", True))
            for m in (models or [])
        ]
    return DetectionPipeline(**kw)


def build_readout(rd: dict):
    from pyxel.exposure import Readout

    kw = dict(rd)
    return Readout(**kw)


def build_outputs(kind: str, out: Optional[dict]):
    if not out:
        return None
    from pyxel.outputs import CalibrationOutputs, ExposureOutputs, ObservationOutputs

    cls = {"exposure": ExposureOutputs, "observation": ObservationOutputs, "calibration": CalibrationOutputs}[kind]
    return cls(**copy.deepcopy(out))


def build_mode(scn: dict):
    from pyxel.exposure import Exposure
    from pyxel.observation import Observation, ParameterValues

    mode = scn["mode"]
    kind = mode["kind"]
    readout = build_readout(scn["readout"])
    outputs = build_outputs(kind, scn.get("outputs"))
    if kind == "exposure":
        return Exposure(readout=readout, outputs=outputs, pipeline_seed=mode.get("pipeline_seed"))
    if kind == "observation":
        params = [
            ParameterValues(key=p["key"], values=copy.deepcopy(p["values"]), enabled=p.get("enabled", True))
            for p in mode["parameters"]
        ]
        return Observation(
            parameters=params,
            outputs=outputs,
            readout=readout,
            mode=mode.get("obs_mode", "product"),
            from_file=mode.get("from_file"),
            column_range=tuple(mode["column_range"]) if mode.get("column_range") else None,
            with_dask=mode.get("with_dask", False),
            pipeline_seed=mode.get("pipeline_seed"),
        )
    raise ValueError(kind)


def build_python(scn: dict):
    return build_mode(scn), build_detector(scn["detector"]), build_pipeline(scn["pipeline"])


def to_yaml_dict(scn: dict, rng=None) -> dict:
    det = scn["detector"]
    doc: dict[str, Any] = {}
    mode = scn["mode"]
    kind = mode["kind"]
    m: dict[str, Any] = {"readout": dict(scn["readout"])}
    if mode.get("pipeline_seed") is not None:
        m["pipeline_seed"] = mode["pipeline_seed"]
    if scn.get("outputs"):
        m["outputs"] = copy.deepcopy(scn["outputs"])
    if kind == "observation":
        m["mode"] = mode.get("obs_mode", "product")
        m["with_dask"] = mode.get("with_dask", False)
        m["parameters"] = copy.deepcopy(mode["parameters"])
        if mode.get("from_file"):
            m["from_file"] = mode["from_file"]
        if mode.get("column_range"):
            m["column_range"] = list(mode["column_range"])
    doc[kind] = m
    ck = _char_kwargs(det)
    doc[DET_KEY[det["type"]]] = {
        "geometry": _geo_kwargs(det),
        "environment": {"temperature": det.get("temperature"), **({"wavelength": det["wavelength"]} if "wavelength" in det else {})},
        "characteristics": ck,
    }
    groups = list(scn["pipeline"].items())
    if rng is not None:
        rng.shuffle(groups)
    doc["pipeline"] = {g: copy.deepcopy(ms) for g, ms in groups}
    if rng is not None:
        items = list(doc.items())
        rng.shuffle(items)
        doc = dict(items)
    return doc


def to_yaml(scn: dict, rng=None) -> str:
    import yaml

    return yaml.safe_dump(to_yaml_dict(scn, rng), sort_keys=False)


def build_yaml(scn: dict, rng=None):
    import pyxel

    cfg = pyxel.loads(to_yaml(scn, rng))
    return cfg.running_mode, cfg.detector, cfg.pipeline


# --------------------------------------------------------------------- scratch
class Scratch:
    """Per-scenario scratch directory outside /repo and /verif, always removed."""

    def __init__(self):
        base = os.environ.get("PYXSIM_SCRATCH") or tempfile.gettempdir()
        self.path = tempfile.mkdtemp(prefix="pyxsim-", dir=base)

    def __enter__(self):
        return self.path

    def __exit__(self, *exc):
        shutil.rmtree(self.path, ignore_errors=True)
        return False


_NJIT_CACHE: dict = {}


def memoise_njit() -> None:
    """Speed seam: pyxel re-declares (and therefore re-compiles) a nested @njit function on every
    Charge.array read.  Compile once per distinct code object instead; behaviour is unchanged."""
    import numba

    if getattr(numba.njit, "_pyxsim_memo", False):
        return
    real = numba.njit

    def njit(*args, **kwargs):
        if len(args) == 1 and callable(args[0]) and not kwargs:
            fn = args[0]
            key = (fn.__code__.co_code, fn.__code__.co_consts, fn.__code__.co_names, fn.__qualname__)
            if fn.__closure__ is None and key in _NJIT_CACHE:
                return _NJIT_CACHE[key]
            disp = real(fn)
            if fn.__closure__ is None:
                _NJIT_CACHE[key] = disp
            return disp
        return real(*args, **kwargs)

    njit._pyxsim_memo = True
    numba.njit = njit


_WARM = [False]


def warm_imports() -> None:
    """Modules that pyxel imports lazily inside functions: import them once, outside any simulation."""
    if _WARM[0]:
        return
    _WARM[0] = True
    import importlib

    for name in ("astropy.visualization", "astropy.io.fits", "PIL.Image", "tqdm.auto", "dask.utils", "pandas", "xarray", "scipy.ndimage", "skimage.transform", "fsspec", "asdf", "yaml"):
        try:
            importlib.import_module(name)
        except Exception:  # noqa: BLE001
            pass
    # numba registers its implementations of the numpy.random functions lazily, keyed on the function objects it finds in
    # numpy.random at that moment: make that happen now, not while the generator seam has wrappers installed there
    try:
        import numba
        import numpy as np

        @numba.njit
        def _w(k):
            np.random.seed(k)
            return np.random.poisson(1.0) + np.random.random() + np.random.normal(0.0, 1.0)

        _w(1)
    except Exception:  # noqa: BLE001
        pass


def reset_process_state() -> None:
    """Everything process-global that pyxel or the probes mutate."""
    import logging

    memoise_njit()
    warm_imports()

    import numpy as np

    from . import probes

    probes.reset()
    try:
        import pyxel
        from pyxel.options import global_options

        global_options.working_directory = None
        _ = pyxel
    except Exception:  # pragma: no cover
        pass
    try:
        import pyxel.util.image as _img

        for _name in ("load_cropped_and_aligned_image", "_load_cropped_and_aligned_image"):
            _fn = getattr(_img, _name, None)
            if _fn is not None and hasattr(_fn, "cache_clear"):
                _fn.cache_clear()
    except Exception:
        pass
    logging.getLogger("dask").setLevel(logging.WARNING)
    logging.getLogger("pyxel").setLevel(logging.WARNING)
    np.random.seed(12345)
