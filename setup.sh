#!/bin/bash
# Offline setup: verify the interpreter and imports the checks need; byte-compile the framework.
set -e
cd "$(dirname "$0")"
/venv/bin/python -W ignore - <<'PY'
import sys
sys.path.insert(0, ".")
import pyxel, dask, xarray, numpy, pygmo, yaml, cloudpickle  # noqa
import pyxsim.engine  # noqa
print("pyxsim setup ok:", pyxel.__file__)
PY
/venv/bin/python -m compileall -q pyxsim >/dev/null
mkdir -p evidence replays
