"""Run the repository's pinned test-suite (guard off) and compare with BASELINE.json stable_pass."""
import json, os, subprocess, sys, tempfile
import xml.etree.ElementTree as ET

base = json.load(open("/root/.vp/BASELINE.json"))
out = tempfile.mktemp(suffix=".junit.xml")
cmd = base["cmd"].replace("<file>", out)
env = dict(os.environ)
env.pop("PYXEL_VERIF", None)
r = subprocess.run(cmd, shell=True, env=env, stdout=subprocess.PIPE, stderr=subprocess.STDOUT, text=True)
passed = set()
for tc in ET.parse(out).getroot().iter("testcase"):
    if not any(ch.tag in ("failure", "error", "skipped") for ch in tc):
        passed.add(f"{tc.get('classname')}::{tc.get('name')}")
os.unlink(out)
missing = [t for t in base["stable_pass"] if t not in passed]
print(f"stable_pass={len(base['stable_pass'])} passed_now={len(passed)} missing={len(missing)}")
for t in missing[:40]:
    print("MISSING", t)
sys.exit(1 if missing else 0)
