#!/bin/bash
# usage: tools/detstress.sh <procs> <first> <last> [ids...]
# Determinism under load: the digests of scenarios first..last of each check, computed by <procs> concurrent fresh
# interpreters (alternating PYTHONHASHSEED 0 / random), must all be identical. Prints one line per check.
procs="$1"; first="$2"; last="$3"; shift 3
ids="$@"; [ -z "$ids" ] && ids="C01 C04 C05 C06 C07 C09 C10 C11 C19"
idx=$(seq -s, $first $last)
tmp=$(mktemp -d /tmp/detstress.XXXXXX)
for c in $ids; do
  for k in $(seq 1 $procs); do
    hs=0; [ $((k % 2)) -eq 0 ] && hs=random
    ( PYTHONHASHSEED=$hs ./check $c --digests $idx 2>&1 | grep DIGESTS > $tmp/$c.$k.txt ) &
  done
  wait
  n=$(cat $tmp/$c.*.txt | sort | uniq | wc -l)
  echo "$c distinct_digest_sets=$n (of $procs runs, scenarios $first..$last)"
  if [ "$n" != "1" ]; then
    /venv/bin/python - "$tmp" "$c" <<'P'
import sys, json, glob
tmp, c = sys.argv[1:3]
rows = [json.loads(open(f).read().split(" ", 1)[1]) for f in glob.glob(f"{tmp}/{c}.*.txt") if open(f).read().strip()]
keys = sorted({k for r in rows for k in r}, key=int)
for k in keys:
    vals = {}
    for r in rows:
        vals[r.get(k)] = vals.get(r.get(k), 0) + 1
    if len(vals) > 1:
        print("  scenario", k, vals)
P
  fi
done
rm -rf $tmp
