"""Copy a confirmed seeded change into /verif/seeded/<PID>-<name>/ and record what was run."""
import json, os, shutil, sys
src, pid, caught_by, note = sys.argv[1], sys.argv[2], sys.argv[3], sys.argv[4]
name = os.path.basename(src.rstrip("/"))
dst = f"/verif/seeded/{pid}-{name}"
os.makedirs(dst, exist_ok=True)
for f in ("patch.diff", "demo.py", "meta.json"):
    shutil.copy(os.path.join(src, f), os.path.join(dst, f))
meta = json.load(open(os.path.join(dst, "meta.json")))
meta["property"] = pid
meta["confirmed_by_main_session"] = {
    "demo_on_clean_tree": "PASS (exit 0)",
    "demo_with_change": "FAIL (exit 1)",
    "how": "tools/try_seeded.sh (git -C /repo apply patch.diff; demo.py; ./check <ID> --tier quick; git -C /repo checkout -- pyxel) or, from round 6 on, tools/wt_try.sh (the same inside a scratch worktree put first on PYTHONPATH, /repo untouched)",
    "caught_by": caught_by.split(","),
    "note": note,
}
json.dump(meta, open(os.path.join(dst, "meta.json"), "w"), indent=1)
print("kept", dst)
