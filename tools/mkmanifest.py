"""Regenerate MANIFEST.json from the property modules that exist (run from /verif)."""
import importlib, json, os, sys
sys.path.insert(0, os.path.dirname(os.path.dirname(os.path.abspath(__file__))))
ALL = [f"C{i:02d}" for i in range(1, 21)]
NA = {
    "C15": "not applicable to deterministic simulation: every clause is a numerical identity of a single model call on (frame, parameters); no schedule, wall clock, shared state, I/O or failure is involved (the multi-step persistence clause only adds the simulated time step, which is an argument) - sampling frames would be input generation in simulator vocabulary (DESIGN.md section 5)",
    "C16": "not applicable to deterministic simulation: a pure function of (voltage frame, bit resolution, range); the statement itself asks for exhaustive enumeration of code transitions, which is a different technique (DESIGN.md section 5)",
}
checks, na = [], []
for pid in ALL:
    if pid in NA:
        na.append({"property_id": pid, "reason": NA[pid]})
        continue
    try:
        mod = importlib.import_module(f"pyxsim.props.{pid.lower()}")
    except ModuleNotFoundError:
        na.append({"property_id": pid, "reason": "not claimed yet: the check for this property is still being built on the shared engine (see DESIGN.md section 4 for the plan)"})
        continue
    checks.append({
        "property_id": pid,
        "quick_cmd": f"./check {pid} --tier quick",
        "thorough_cmd": f"./check {pid} --tier thorough",
        "evidence_file": f"/verif/evidence/{pid}.json",
        "replay_cmd_template": f"./check {pid} --replay {{path}}",
        "engine": getattr(mod, "ENGINE", "pyxsim"),
        "level_claimed": {"category": mod.LEVEL, "text": mod.LEVEL_TEXT, "design_ref": f"DESIGN.md section 4, {pid}"},
        "level_note": mod.LEVEL_NOTE,
        "technique": mod.TECHNIQUE,
    })
man = {
    "version": 1,
    "setup_cmd": "./setup.sh",
    "hooks": {
        "guard": "PYXEL_VERIF",
        "enable": "no source hooks are needed: every seam is taken from /verif by module-attribute replacement, dask configuration or sys.monitoring while a check runs (PYXEL_VERIF is reserved and unused)",
        "baseline_off_cmd": "cd /repo && /venv/bin/python -m pytest -ra -q -p no:cacheprovider --timeout=900 --continue-on-collection-errors",
        "source_commits": [],
        "add_only": True,
    },
    "engines": [
        {"name": "pyxsim", "path": "/verif/pyxsim", "serves_properties": [c["property_id"] for c in checks],
         "kind_free_text": "deterministic simulation with fault injection: seeded baton-passing scheduler over real threads (dask thread-pool seam, adopted pygmo threads), virtual clock, numpy-RNG / wall-clock / filesystem seams, probe models, reference model, seeded operation-and-fault sequences with shrinking and replay files"},
    ],
    "checks": checks,
    "not_applicable": na,
    "notes": "All checks share ./check <ID>; exit 0 = held, 1 = VIOLATION line + replay file, 2 = HARNESS-ERROR (never a pass). Known findings: /verif/known_findings.json.",
}
json.dump(man, open("MANIFEST.json", "w"), indent=1)
print("checks:", [c["property_id"] for c in checks], "na:", [n["property_id"] for n in na])
