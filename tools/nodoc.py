"""Print python files with docstrings and comments removed (reading aid)."""
import ast, sys
for fn in sys.argv[1:]:
    src = open(fn).read()
    tree = ast.parse(src)
    for node in ast.walk(tree):
        if isinstance(node, (ast.FunctionDef, ast.ClassDef, ast.Module, ast.AsyncFunctionDef)) and node.body \
           and isinstance(node.body[0], ast.Expr) and isinstance(getattr(node.body[0], "value", None), ast.Constant) \
           and isinstance(node.body[0].value.value, str):
            node.body[0].value.value = "."
    print("#### ", fn)
    print(ast.unparse(tree))
