#!/bin/bash
# usage: tools/run_all.sh <tier> [ids...]   -- runs the checks one after another, prints one summary line each
tier="$1"; shift
ids="$@"; [ -z "$ids" ] && ids="C01 C02 C03 C04 C05 C06 C07 C08 C09 C10 C11 C12 C13 C14 C17 C18 C19 C20"
for c in $ids; do
  start=$(date +%s)
  ./check $c --tier $tier > /tmp/runall_$c.log 2>&1; rc=$?
  echo "$c rc=$rc $(( $(date +%s) - start ))s :: $(grep -E 'tier=' /tmp/runall_$c.log | tail -1 | cut -c1-160)"
  grep -E "VIOLATION|violation clause|HARNESS" /tmp/runall_$c.log | cut -c1-400 | head -8
done
