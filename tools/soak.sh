#!/bin/bash
# usage: tools/soak.sh "<seeds>" [ids...]  -- quick tier over several VERIF_SEED values; prints only what needs attention
seeds="$1"; shift
ids="$@"; [ -z "$ids" ] && ids="C01 C02 C03 C04 C05 C06 C07 C08 C09 C10 C11 C12 C13 C14 C17 C18 C19 C20"
for s in $seeds; do
  for c in $ids; do
    PYXSIM_EVIDENCE_DIR=/tmp/soak_evidence VERIF_SEED=$s ./check $c --tier quick > /tmp/soak_${c}_$s.log 2>&1; rc=$?
    if [ $rc -ne 0 ]; then
      echo "### seed=$s $c rc=$rc"; grep -E "VIOLATION|violation clause|HARNESS" /tmp/soak_${c}_$s.log | cut -c1-500 | head -6
    fi
  done
  echo "seed $s done"
done
