#!/bin/bash
# usage: tools/try_seeded.sh <dir with patch.diff demo.py meta.json> <CHECK-ID> [more check ids]
# Applies the seeded change to /repo, runs its demo (must FAIL) and the given quick checks, then reverts (always).
d="$1"; shift
cd /repo || exit 9
if [ -n "$(git status --porcelain -- pyxel)" ]; then echo "repo dirty"; exit 9; fi
echo "== demo on clean tree"; (cd /repo && PYTHONPATH=/repo timeout 300 /venv/bin/python -W ignore "$d/demo.py" >/tmp/demo_clean.log 2>&1; echo "rc=$?"; tail -2 /tmp/demo_clean.log)
git apply "$d/patch.diff" || { echo "patch does not apply"; exit 9; }
trap 'cd /repo && git checkout -- pyxel' EXIT
echo "== demo with change"; (cd /repo && PYTHONPATH=/repo timeout 300 /venv/bin/python -W ignore "$d/demo.py" >/tmp/demo_mut.log 2>&1; echo "rc=$?"; tail -2 /tmp/demo_mut.log)
for c in "$@"; do
  echo "== check $c"
  (cd /verif && PYXSIM_EVIDENCE_DIR=/tmp/wt/eval_evidence timeout 900 ./check "$c" --tier quick 2>&1 | grep -E "VIOLATION|violation clause|KNOWN|HARNESS|tier=" | cut -c1-420)
done
