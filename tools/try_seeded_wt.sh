#!/bin/bash
# usage: tools/try_seeded_wt.sh <dir with patch.diff demo.py meta.json> <CHECK-ID> [more check ids]
# Triage of a seeded change WITHOUT touching /repo (safe while background checks read /repo): the change is applied to a scratch
# worktree of /repo's HEAD and the checks import pyxel from there (PYTHONPATH precedes the development install).
# The record kept under /verif/seeded comes from tools/try_seeded.sh (change applied to /repo itself and reverted).
d="$1"; shift
wt=/tmp/wt/eval
if [ ! -d "$wt" ]; then git -C /repo worktree add -q --detach "$wt" HEAD || exit 9; fi
git -C "$wt" checkout -q --detach "$(git -C /repo rev-parse HEAD)" && git -C "$wt" checkout -q -- . || exit 9
git -C "$wt" apply "$d/patch.diff" || { echo "patch does not apply"; exit 9; }
trap 'git -C '"$wt"' checkout -q -- .' EXIT
echo "== demo with change"; (cd "$wt" && PYTHONPATH="$wt" timeout 300 /venv/bin/python -W ignore "$d/demo.py" >/tmp/demo_mut_wt.log 2>&1; echo "rc=$?"; tail -2 /tmp/demo_mut_wt.log)
for c in "$@"; do
  echo "== check $c (pyxel from $wt)"
  (cd /verif && PYTHONPATH="$wt" PYXSIM_EVIDENCE_DIR=/tmp/wt/eval_evidence timeout 900 ./check "$c" --tier quick 2>&1 | grep -E "VIOLATION|violation clause|KNOWN|HARNESS|tier=" | cut -c1-420)
done
