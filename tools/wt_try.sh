#!/bin/bash
# usage: tools/wt_try.sh <worktree of /repo> <dir with patch.diff demo.py> <CHECK-ID>...
# Like try_seeded.sh but applies the seeded change inside a scratch worktree and runs the checks with that worktree first on
# PYTHONPATH, so /repo stays untouched and several changes can be tried at the same time (triage only: evidence goes to a scratch dir).
wt="$1"; d="$2"; shift 2
cd "$wt" || exit 9
git checkout -- pyxel
git apply "$d/patch.diff" || { echo "patch does not apply"; exit 9; }
trap 'cd "$wt" && git checkout -- pyxel' EXIT
echo "== demo with change"; (cd "$wt" && PYTHONPATH="$wt" timeout 300 /venv/bin/python -W ignore "$d/demo.py" 2>&1 | tail -1; echo "rc=${PIPESTATUS[0]}")
for c in "$@"; do
  echo "== check $c"
  (cd /verif && PYTHONPATH="$wt" PYXSIM_EVIDENCE_DIR=/tmp/wt/eval_evidence_$(basename $wt) timeout 900 ./check "$c" --tier quick 2>&1 | grep -E "VIOLATION|violation clause|KNOWN|HARNESS|tier=" | cut -c1-420 | head -8)
done
